(* C10 case formats, model-vs-implementation comparison and the property oracle ("no task panics, the
   component / node keeps serving") evaluated on the IMPLEMENTATION's observations.
   Five streams:
     C10Pipe   shreds of honest and Byzantine-signed blocks through the node's shred path
               (ValidatedShred::try_new with the cached commitment -> BlockstoreImpl -> PoolImpl::add_block -> Votor)
     C10Rep    the repair requester / responder cases of C14 (hostile responses, requests from unknown senders)
     C10Pool   consensus messages (consistent histories + far-future / pruned / equivocating votes and
               certificates) -> real PoolImpl, every emitted event fed to a real Votor
     C10Votor  Votor with blockstore events / time-outs for extreme slots (u64 arithmetic: Model/Node64.v)
     C10Prod   the REAL produce_slice_payload (cfg hook) on a scripted transaction source, compared with Model/Producer.v:
               transaction count, buffer length, transactions consumed, which payloads ended up in the slice
     C10Apr    the REAL apply_parent_ready (cfg hook), compared with Model/Producer.v
     C10Node   a real cluster (Alpenglow nodes over SimulatedNetwork) with a Byzantine validator and an outside
               attacker on all five interfaces: panics seen by the process-wide hook, finalized slots before /
               after the hostile phase, a repair request answered afterwards *)
From Coq Require Import List NArith Bool.
From AG Require Import Gen.Params Model.Pool Model.Blockstore Model.Repair Model.Votor Model.Producer Model.Node64
     Oracle.C13 Oracle.C14 Oracle.PoolRun Oracle.VotorRun.
Import ListNotations.
Open Scope N_scope.

Record pstep10 := mkP10 { p_shred : bshred; p_ret : N; p_evs : list N }.
Inductive c10case :=
| C10Pipe (id : N) (blocks : list (N * content * list pstep10)) (pool_panics votor_panics : N) (served : bool)
| C10Rep (c : c14case)
| C10Pool (c : pcase) (votor_panics : N)
| C10Votor (c : vcase)
| C10Prod (id : N) (has_parent : bool) (txs : list N) (full : bool) (len count consumed : N) (lens : list N) (panicked : bool)
| C10Apr (id : N) (optimistic received : N * N) (impl : option (option (N * N)))   (* None = panic; Some None = parent untouched *)
| C10Node (id kind : N) (param : list N) (panicked : bool) (fin_mid fin_end : list N) (responder_ok : bool).

Definition fl10 (b : bool) (f : N) : N := if b then f else 0.

(* ---- pipe ---- *)
Definition ret_kind (r : bs_ret) : N :=
  match r with
  | BROk None => 0 | BROk (Some _) => 1
  | BRErr EDuplicate => 2 | BRErr EEquivocation => 3 | BRErr EInvalidShred => 4
  | BRPanic => 9
  end.
Definition ev_kind (e : bevent) : N := match e with BFirstShred => 0 | BBlock _ _ => 1 | BInvalidBlock => 2 end.

Fixpoint run_psteps (slot : N) (ct : content) (sd : slotdata) (k : N) (steps : list pstep10) (id base : N) : list (N * N * N) :=
  match steps with
  | [] => []
  | st :: rest =>
    let '(sd', ret, evs) := bs_step true ct slot sd (BDissem (p_shred st)) in
    let same := (ret_kind ret =? p_ret st) && ((p_ret st =? 9) || PoolRun.listN_eqb (map ev_kind evs) (p_evs st)) in
    let fl := N.lor (fl10 (negb same) 1) (fl10 (p_ret st =? 9) 2) in
    (if fl =? 0 then [] else [(id, base + k, fl)]) ++ run_psteps slot ct sd' (k + 1) rest id base
  end.
Fixpoint run_pblocks (bs : list (N * content * list pstep10)) (id base : N) : list (N * N * N) :=
  match bs with
  | [] => []
  | (slot, ct, steps) :: rest => run_psteps slot ct sd_empty 0 steps id base ++ run_pblocks rest id (base + 1000)
  end.

(* ---- pool ---- *)
Definition pcase_id (c : pcase) : N := match c with PCase id _ _ _ => id end.
Definition pcase_panics (c : pcase) : list (N * N * N) :=
  match c with
  | PCase id _ _ steps =>
    snd (fold_left (fun (acc : N * list (N * N * N)) st =>
                      let '(k, l) := acc in
                      (k + 1, match sp_res st with RPanic => l ++ [(id, k, 2)] | _ => l end)) steps (0, []))
  end.

(* ---- votor with u64 slots ---- *)
Fixpoint run_vsteps64 (e : epoch) (t : votor) (k : N) (steps : list vstep) (id : N) : list (N * N * N) :=
  match steps with
  | [] => []
  | st :: rest =>
    let '(t', outs, pan) := votor_step64 (own e) t (vs_in st) in
    let same :=
      Bool.eqb pan (vs_panicked st)
      && (pan || (list_eqb vout_eqb (filter is_bcast outs) (vs_out st)
                  && PoolRun.listN_eqb (timeouts_of outs) (vs_timeouts st)
                  && mset_eqb N.eqb (map fst (vt_slots t')) (vs_retained st))) in
    let fl := N.lor (fl10 (negb same) 1) (fl10 (vs_panicked st) 2) in
    (if fl =? 0 then [] else [(id, k, fl)]) ++ run_vsteps64 e t' (k + 1) rest id
  end.

(* ---- node ---- *)
Fixpoint all_gt (a b : list N) : bool :=      (* every node's finalized slot advanced *)
  match a, b with
  | [], [] => true
  | x :: a', y :: b' => (y <? x) && all_gt a' b'
  | _, _ => false
  end.
Definition node_expect_panic (kind : N) (param : list N) : bool :=
  match kind, param with
  | 2, [p; k] => is_ppanic (produce_slice false (repeat p (N.to_nat k))) || is_ppanic (produce_slice true (repeat p (N.to_nat k)))
  | 3, [s] => snd (votor_step64 0 votor_init (VInvalidBlock s))
  | 4, [s1; h1; s2; h2] => match apply_parent_ready (s1, h1) (s2, h2) with AprPanic => true | _ => false end
  | _, _ => false
  end.

(* ---- producer hooks ---- *)
Definition prod_same (hp : bool) (txs : list N) (full : bool) (len count consumed : N) (lens : list N) (panicked : bool) : bool :=
  match produce_slice hp txs with
  | PPanic => panicked
  | PFull l c k => negb panicked && full && (l =? len) && (c =? count) && (k =? consumed) && PoolRun.listN_eqb (accepted k txs) lens
  | PTimeout l c k => negb panicked && negb full && (l =? len) && (c =? count) && (k =? consumed) && PoolRun.listN_eqb (accepted k txs) lens
  end.
(* the property on the implementation's own output: no panic, the slice fits, nothing above the limit got in,
   the count is the number of transactions in the buffer and the buffer length is what they occupy *)
Definition prod_ok (hp : bool) (len count : N) (lens : list N) (panicked : bool) : bool :=
  negb panicked && (slice_payload_len hp len <=? MAX_DATA_PER_SLICE)
  && forallb (fun p => p <=? MAX_TRANSACTION_SIZE) lens
  && (count =? N.of_nat (length lens))
  && (len =? 8 + fold_right (fun q a => tx_encoded q + a) 0 lens).
Definition apr_same (o r : N * N) (impl : option (option (N * N))) : bool :=
  match apply_parent_ready o r, impl with
  | AprPanic, None => true
  | AprKeep, Some None => true
  | AprSwitch p, Some (Some q) => bid_eqb p q
  | _, _ => false
  end.

Definition run_c10 (c : c10case) : list (N * N * N) :=
  match c with
  | C10Pipe id blocks pp vp served =>
    run_pblocks blocks id 0
    ++ (if pp =? 0 then [] else [(id, 999990, 2)])
    ++ (if vp =? 0 then [] else [(id, 999991, 2)])
    ++ (if served then [] else [(id, 999992, 2)])
  | C10Rep c => c14_run [c]
  | C10Pool c vp =>
    run_pcase 0 c ++ pcase_panics c ++ (if vp =? 0 then [] else [(pcase_id c, 999991, 2)])
  | C10Votor (VCase id stakes own init_t steps) =>
    (if PoolRun.listN_eqb init_t [0] then [] else [(id, 999999, 1)])
    ++ run_vsteps64 (mkEpoch stakes own) votor_init 0 steps id
  | C10Prod id hp txs full len count consumed lens panicked =>
    let fl := N.lor (fl10 (negb (prod_same hp txs full len count consumed lens panicked)) 1)
                    (fl10 (negb (prod_ok hp len count lens panicked)) 2) in
    if fl =? 0 then [] else [(id, 0, fl)]
  | C10Apr id o r impl =>
    let fl := N.lor (fl10 (negb (apr_same o r impl)) 1) (fl10 (match impl with None => true | _ => false end) 2) in
    if fl =? 0 then [] else [(id, 0, fl)]
  | C10Node id kind param panicked fin_mid fin_end responder_ok =>
    let exp := node_expect_panic kind param in
    (* kind 4 depends on a race between block reconstruction and the ParentReady event at the next leader: the model
       says when the assertion fires, not that the schedule reaches it - only an UNEXPECTED panic is a mismatch there *)
    let differ := if kind =? 4 then panicked && negb exp else negb (Bool.eqb exp panicked) in
    let fl := N.lor (fl10 differ 1)
                    (fl10 (panicked || negb (all_gt fin_end fin_mid) || negb responder_ok) 2) in
    if fl =? 0 then [] else [(id, 0, fl)]
  end.
Definition c10_run (cs : list c10case) : list (N * N * N) := flat_map run_c10 cs.
