(* Case format for Votor traces, model-vs-implementation comparison and the C05 oracle evaluated
   on the IMPLEMENTATION's broadcast log. *)
From Coq Require Import List NArith Bool.
From AG Require Import Gen.Params Model.Pool Model.PoolSpec Model.Votor Oracle.PoolRun.
Import ListNotations.
Open Scope N_scope.

Record vstep := mkVStep { vs_in : vin; vs_out : list vout; vs_timeouts : list slot; vs_retained : list slot; vs_panicked : bool }.
Inductive vcase := VCase (id : N) (stakes : list N) (own : N) (init_timeouts : list slot) (steps : list vstep).

Definition vout_eqb (a b : vout) : bool :=
  match a, b with
  | VBVote x, VBVote y => vote_eqb x y
  | VBCert x, VBCert y => cert_eqb x y
  | VSetTimeouts x, VSetTimeouts y => x =? y
  | _, _ => false
  end.
Definition is_bcast (o : vout) : bool := match o with VSetTimeouts _ => false | _ => true end.
Definition timeouts_of (l : list vout) : list slot := flat_map (fun o => match o with VSetTimeouts s => [s] | _ => [] end) l.

(* ---------- C05 oracle over the implementation's trace ---------- *)
Definition votes_of (l : list vout) : list vote := flat_map (fun o => match o with VBVote v => [v] | _ => [] end) l.
(* votes re-broadcast from a standstill bundle are the pool's stored votes, not new decisions *)
Definition hist_votes (hist : list vstep) : list vote :=
  flat_map (fun s => match vs_in s with VPool (EStandstill _ _ _) => [] | _ => votes_of (vs_out s) end) hist.
Definition is_initial (v : vote) : bool := match v_kind v with KNotar _ | KSkip => true | _ => false end.
Definition in_blocks (hist : list vstep) (s : slot) (h : hash) : list blockid :=
  flat_map (fun st => match vs_in st with VBlock s' h' p => if (s =? s') && (h =? h') then [p] else [] | _ => [] end) hist.
Definition had_parent_ready (hist : list vstep) (s : slot) (p : blockid) : bool :=
  existsb (fun st => match vs_in st with VPool (EParentReady s' p') => (s =? s') && bid_eqb p p' | _ => false end) hist.
Definition had_notar_cert (hist : list vstep) (s : slot) (h : hash) : bool :=
  existsb (fun st => match vs_in st with
                     | VPool (ECertCreated c) => (c_slot c =? s) && match c_kind c with CNotar h' => h =? h' | _ => false end
                     | _ => false end) hist.
Definition voted_kind (vs : list vote) (s : slot) (f : vkind -> bool) : bool :=
  existsb (fun v => (v_slot v =? s) && f (v_kind v)) vs.

(* own votes replayed into the vote-admission model of the pool: never slashable *)
Fixpoint replay_own (e : epoch) (ss : list (slot * slot_state)) (vs : list vote) : bool :=
  match vs with
  | [] => true
  | v :: t =>
    let st := aget ss_empty (v_slot v) ss in
    match check_slashable st v with
    | Some _ => false
    | None => if should_ignore st v then replay_own e ss t
              else replay_own e (ainsert (v_slot v) (fst (ss_add_vote e st v)) ss) t
    end
  end.

Definition c05_step_ok (e : epoch) (hist : list vstep) (st : vstep) : bool :=
  let before := hist_votes hist in                 (* own votes of earlier steps (any order inside hist) *)
  let now := votes_of (vs_out st) in
  let upto := hist ++ [st] in                      (* inputs seen so far, including the current one *)
  negb (vs_panicked st)
  && forallb (fun v => v_signer v =? own e) now
  && (fix each (l : list vote) (earlier : list vote) :=
        match l with
        | [] => true
        | v :: t =>
          let s := v_slot v in
          let ok :=
            match v_kind v with
            | KNotar h =>
              (* one initial vote per slot; block known; acceptable parent *)
              negb (voted_kind earlier s (fun k => match k with KNotar _ | KSkip => true | _ => false end))
              && existsb (fun p => if is_window_start s then had_parent_ready upto s p
                                   else (fst p =? s - 1) && (bid_eqb p (0, 0) (* genesis counts as notarized by every node *)
                                                            || voted_kind earlier (s - 1) (fun k => match k with KNotar h' => h' =? snd p | _ => false end)))
                         (in_blocks upto s h)
            | KSkip => negb (voted_kind earlier s (fun k => match k with KNotar _ | KSkip => true | _ => false end))
            | KFinal =>
              existsb (fun w => (v_slot w =? s) && match v_kind w with KNotar h => had_notar_cert upto s h | _ => false end) earlier
              && negb (voted_kind earlier s (fun k => match k with KSkip | KSkipFb | KNotarFb _ => true | _ => false end))
              && negb (voted_kind earlier s (fun k => match k with KFinal => true | _ => false end))
            | KNotarFb h =>
              match vs_in st with
              | VPool (ESafeToNotar b) => bid_eqb b (s, h)
              | VPool (EStandstill _ _ _) => true
              | _ => false end
              && negb (voted_kind earlier s (fun k => match k with KFinal => true | _ => false end))
            | KSkipFb =>
              match vs_in st with
              | VPool (ESafeToSkip s') => s =? s'
              | VPool (EStandstill _ _ _) => true
              | _ => false end
              && negb (voted_kind earlier s (fun k => match k with KFinal => true | _ => false end))
            end in
          (* votes re-broadcast from a standstill bundle are the pool's stored votes, not new decisions *)
          (match vs_in st with VPool (EStandstill _ _ _) => true | _ => ok end) && each t (earlier ++ [v])
        end) now before
  && match vs_in st with
     | VPool (EStandstill _ cs vs) =>
       list_eqb vout_eqb (filter is_bcast (vs_out st)) (map VBCert cs ++ map VBVote vs)
     | _ => replay_own e [] (before ++ now)
     end.

Definition flagv (b : bool) (f : N) : N := if b then f else 0.

Fixpoint run_vsteps (e : epoch) (t : votor) (hist : list vstep) (k : N) (steps : list vstep) (id : N) : list (N * N * N) :=
  match steps with
  | [] => []
  | st :: rest =>
    let '(t', outs, pan) := votor_step (own e) t (vs_in st) in
    let same :=
      Bool.eqb pan (vs_panicked st)
      && (pan || (list_eqb vout_eqb (filter is_bcast outs) (vs_out st)
                  && listN_eqb (timeouts_of outs) (vs_timeouts st)
                  && mset_eqb N.eqb (map fst (vt_slots t')) (vs_retained st))) in
    let fl := N.lor (flagv (negb same) 1) (flagv (negb (c05_step_ok e hist st)) 2) in
    (if fl =? 0 then [] else [(id, k, fl)]) ++ run_vsteps e t' (hist ++ [st]) (k + 1) rest id
  end.

Definition run_vcase (c : vcase) : list (N * N * N) :=
  match c with
  | VCase id stakes own init_t steps =>
    (if listN_eqb init_t [0] then [] else [(id, 999999, 1)])
    ++ run_vsteps (mkEpoch stakes own) votor_init [] 0 steps id
  end.
Definition votor_run (cs : list vcase) : list (N * N * N) := flat_map run_vcase cs.
