(* C12 case format, model-vs-implementation comparison, and the oracle on the implementation's verdicts. *)
From Coq Require Import String Uint63 List NArith Bool.
From AG Require Import Lib.Sha256 Lib.Hex Model.Merkle Model.MerkleSha Model.ShredAuth Model.Pool Model.Blockstore Oracle.C13.
Import ListNotations.

Inductive sverdict' := SPanic | SV (v : sverdict).
Coercion SV : sverdict >-> sverdict'.
(* expectation: 0 = must be accepted, 1 = must be rejected, 2 = no expectation (cache interplay: model decides),
   3 = must be reported as equivocation (a validly signed commitment differing from the cached, validly signed one) *)
Inductive c12case := C12 (id : N) (w : wshred_s) (cached : option string) (expect : N) (impl : sverdict')
with wshred_s := mkW (slot slice : N) (last : bool) (index : N) (data : string) (path : list string)
                     (is_data by_leader : bool) (sig_msg : string).

Definition to_w (x : wshred_s) : wshred :=
  match x with mkW s i l k d p t b m => ShredAuth.mkW s i l k (hex d) (map hex p) t b (hex m) end.
Definition sverdict_eqb (a b : sverdict) : bool :=
  match a, b with SOk, SOk | SInvalidSignature, SInvalidSignature | SEquivocation, SEquivocation => true | _, _ => false end.
Definition run_c12 (c : c12case) : list (N * N * N) :=
  match c with
  | C12 id w cached expect impl =>
    let m := validate_shred (option_map hex cached) (to_w w) in
    let fl := match impl with
              | SPanic => 3%N
              | SV r => N.lor (if sverdict_eqb r m then 0 else 1)%N
                              (match expect, r with
                               | 0%N, SOk => 0 | 0%N, _ => 2
                               | 1%N, SOk => 2 | 1%N, _ => 0
                               | 3%N, SEquivocation => 0 | 3%N, _ => 2
                               | _, _ => 0 end)%N
              end in
    if N.eqb fl 0 then [] else [(id, 0%N, fl)]
  end.
Definition c12_run (cs : list c12case) : list (N * N * N) := flat_map run_c12 cs.

(* the blockstore clauses of C12 on C13's traces: equivocation revealed by the delivered shreds is reported, and a
   correct leader must NEVER be flagged - also not when a validated shred carries a flipped (unsigned) data/coding
   tag: such a shred is refused with InvalidShred, emits nothing and is evidence of nothing (all other clauses
   are about the remaining, type-consistent shreds) *)
Open Scope N_scope.
Definition c12_block_step_ok (slot : N) (ct : content) (hist : list bstep) (st : bstep) : bool :=
  let upto := hist ++ [st] in
  let evs := all_events_b upto in
  let shs := filter tag_ok (dissem_shreds upto) in
  let repaired := existsb (fun s => match bs_op' s with BRepair _ _ _ => true | _ => false end) upto in
  let own := match own_slices upto with [] => false | _ => true end in
  tag_refusal_ok st &&
  (repaired || own
  || (* two validly signed commitments for one slice (or contradictory last markers) are reported, never silently accepted *)
     (if reveals_equivocation shs then existsb is_invalid_ev evs else false)
  || negb (reveals_equivocation shs) &&
     match honest_block slot ct shs with
     | Some _ => negb (existsb is_invalid_ev evs)
     | None =>
       existsb (fun r => match content_of ct r with DecErr => true | DecOk _ ok => negb ok end) (map b_root shs)
       || existsb (fun s => (b_slice s =? 0) && match content_of ct (b_root s) with DecOk None _ => true | _ => false end) shs
       || existsb (fun s => negb (b_slice s =? 0) && match content_of ct (b_root s) with DecOk (Some _) _ => true | _ => false end) shs
       || existsb (fun s => match content_of ct (b_root s) with DecOk (Some p) _ => negb (fst p <? slot) | _ => false end) shs
       || negb (existsb is_invalid_ev evs)
     end).
Fixpoint run_c12b_steps (slot : N) (ct : content) (hist : list bstep) (k : N) (steps : list bstep) (id : N) : list (N * N * N) :=
  match steps with
  | [] => []
  | st :: rest =>
    (if c12_block_step_ok slot ct hist st then [] else [(id, k, 2)])
    ++ run_c12b_steps slot ct (hist ++ [st]) (k + 1) rest id
  end.
Definition c12b_run (cs : list bcase) : list (N * N * N) :=
  flat_map (fun c => match c with BCase id slot ct steps =>
     (* report only the first flagged step of a case *)
     match run_c12b_steps slot ct [] 0 steps id with [] => [] | x :: _ => [x] end end) cs.
