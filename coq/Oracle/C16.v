(* C16 case format, model-vs-implementation comparison, and the property oracle evaluated on the
   IMPLEMENTATION's routing decisions (imports the model only, never the proofs). *)
From Coq Require Import List NArith Bool.
From AG Require Import Gen.Params Lib.ChaCha Model.Sampling Model.Routing.
Import ListNotations.
Open Scope N_scope.

(* one Rotor query: a shred index and the relay each (virtual) instance sent it to; None = the call panicked *)
Definition rquery := (N * list (option N))%type.
(* Turbine observations for one own id: what each independently constructed instance with that own id - and
   the same instance asked again - reported for the triple (root it sent to, children it forwarded to; None =
   panicked).  The instances were asked the triples of the case in different orders (slice 1 before slice 0,
   interleaved, after other slots), so a tree cached under the wrong key shows up as a disagreement. *)
Definition tobs := (N * list (option (N * list N)))%type.
(* one shred of a loss-free run: shred index, deliveries in FIFO order, number of non-empty send_to_many calls *)
Definition rshred := (N * list N * N)%type.

Inductive c16case :=
(* words the real StdRng::from_seed(seed) returned for a sequence of next_u32 (false) / next_u64 (true) calls *)
| C16Stream (id : N) (seed : list N) (calls : list (bool * N))
(* independently constructed Rotor instances (fa1 = Rotor::new_fa1): per instance whether the constructor
   panicked; per (slot, slice) the queries *)
| C16Rotor (id : N) (stakes : list N) (fa1 : bool) (ctor_panicked : list bool) (slices : list (N * N * list rquery))
(* Turbine instances with the given fanout: per (slot, slice, shred) the observations; complete = one
   observation for every validator *)
| C16Turbine (id : N) (stakes : list N) (fanout : N) (complete : bool) (trees : list (N * N * N * list tobs))
(* loss-free run of real Alpenglow nodes (receive path = consensus.rs handle_disseminator_shred) over the
   recording network: proto 0 = Rotor::new, 1 = Turbine with `fanout`, 2 = trivial, 3 = Rotor::new_fa1;
   stored = the validators whose blockstore holds every shred of the slice when the network is quiet *)
| C16Run (id : N) (stakes : list N) (proto fanout : N) (slot slice : N) (stored : list N) (shreds : list rshred).

Definition list_eqb (a b : list N) : bool :=
  Nat.eqb (length a) (length b) && forallb (fun '(x, y) => x =? y) (combine a b).
Definition flagN (b : bool) (f : N) : N := if b then f else 0.
Definition out (id sub fl : N) : list (N * N * N) := if fl =? 0 then [] else [(id, sub, fl)].
(* a property violation is reported under (case, sub) with bit 2; a disagreement between model and code is
   reported separately (sub + 500000, bit 1) so that it can never be folded into a known finding *)
Definition emit (id sub : N) (mismatch violation : bool) : list (N * N * N) :=
  (if violation then [(id, sub, 2)] else []) ++ (if mismatch then [(id, sub + 500000, 1)] else []).

(* enough keystream for 64 Lemire draws even with heavy rejection / for a shuffle of n validators *)
Definition rotor_blocks : nat := 64.
Definition turbine_blocks (n : nat) : nat := (8 + Nat.div n 2)%nat.

(* ---------------- StdRng stream ---------------- *)
Fixpoint replay_calls (calls : list (bool * N)) (s : stream) : bool :=
  match calls with
  | [] => true
  | (is64, v) :: r =>
    match (if is64 then next_u64 s else next_u32 s) with
    | Ok w s' => (w =? v) && replay_calls r s'
    | _ => false
    end
  end.

(* ---------------- Rotor relays ---------------- *)
Definition all_equal (l : list (option N)) : bool :=
  match l with
  | [] => true
  | x :: r => forallb (fun y => match x, y with
                                | Some a, Some b => a =? b
                                | None, None => true
                                | _, _ => false
                                end) r
  end.
Definition first_some (l : list (option N)) : option N :=
  match l with Some v :: _ => Some v | _ => None end.

Definition run_rotor_slice (id : N) (stakes : list N) (fa1 : bool) (sub0 : N) (sl : N * N * list rquery) : list (N * N * N) :=
  let '(slot, slice, qs) := sl in
  let n := lenN stakes in
  (* the model's committee for this slice, both constructors *)
  let committee := match (if fa1 then rotor_new_fa1 stakes else rotor_new stakes) with
                   | COk sm => match rotor_relays (stdrng rotor_blocks) sm slot slice with Ok q _ => Some q | _ => None end
                   | _ => None
                   end in
  flat_map (fun '(shred, seen) =>
    let agree := all_equal seen in
    let defined := forallb (fun o => match o with Some v => v <? n | None => false end) seen in
    let mism :=
      match first_some seen with
      | None => false
      | Some r =>
        match committee with
        | Some q => match nth_error q (N.to_nat shred) with Some v => negb (v =? r) | None => true end
        | None => true
        end
      end in
    emit id (sub0 + shred) mism (negb agree || negb defined)) qs.

Fixpoint run_rotor_slices (id : N) (stakes : list N) (fa1 : bool) (sub0 : N) (sls : list (N * N * list rquery)) : list (N * N * N) :=
  match sls with
  | [] => []
  | sl :: r => run_rotor_slice id stakes fa1 sub0 sl ++ run_rotor_slices id stakes fa1 (sub0 + 100) r
  end.

Definition positive_set (stakes : list N) : bool :=
  negb (lenN stakes =? 0) && forallb (fun s => 0 <? s) stakes && (sumN stakes <? W64).

(* ---------------- Turbine trees ---------------- *)
Definition run_turbine_tree (id : N) (stakes : list N) (fanout : N) (complete : bool) (sub : N)
                            (t : N * N * N * list tobs) : list (N * N * N) :=
  let '(slot, slice, shred, obs) := t in
  let n := length stakes in
  let order := turbine_order (stdrng (turbine_blocks n)) stakes slot (index_in_slot slice shred) in
  let view_eqb (a b : option (N * list N)) : bool :=
    match a, b with
    | Some (r1, c1), Some (r2, c2) => (r1 =? r2) && list_eqb c1 c2
    | None, None => true
    | _, _ => false
    end in
  let first_view (l : list (option (N * list N))) : option (N * list N) := match l with v :: _ => v | [] => None end in
  let mism :=
    match order with
    | Ok ord _ =>
      negb (forallb (fun '(own, views) =>
              match tree_of_order ord fanout own, first_view views with
              | Some t, Some (root, ch) => (t_root t =? root) && list_eqb (t_children t) ch
              | None, None => true
              | _, _ => false
              end) obs)
    | _ => true
    end in
  (* the property on the observations alone: every instance with the same own id reports the same view of
     the tree whatever it was asked before; one root for everybody; with complete observations, the root
     together with all children lists is every validator exactly once *)
  let same_views := forallb (fun '(_, views) => forallb (view_eqb (first_view views)) views) obs in
  let roots := map (fun '(_, views) => match first_view views with Some (r, _) => Some r | None => None end) obs in
  let agree := same_views && all_equal roots && forallb (fun o => match o with Some _ => true | None => false end) roots in
  let covered :=
    if complete then
      match first_some roots with
      | Some r =>
        let reached := r :: flat_map (fun '(_, views) => match first_view views with Some (_, ch) => ch | None => [] end) obs in
        Nat.eqb (length reached) n && forallb (fun v => count_occ_N reached v =? 1) (seqN 0 n)
      | None => false
      end
    else true in
  emit id sub mism (negb agree || negb covered).

Fixpoint run_turbine_trees (id : N) (stakes : list N) (fanout : N) (complete : bool) (sub : N)
                           (ts : list (N * N * N * list tobs)) : list (N * N * N) :=
  match ts with
  | [] => []
  | t :: r => run_turbine_tree id stakes fanout complete sub t ++ run_turbine_trees id stakes fanout complete (sub + 1) r
  end.

(* ---------------- loss-free runs ---------------- *)
Definition run_shred (id : N) (stakes : list N) (proto fanout slot slice : N) (stored : list N) (sh : rshred) : list (N * N * N) :=
  let '(shred, deliveries, broadcasts) := sh in
  let n := lenN stakes in
  let leader := leader_of n slot in
  let expected :=
    if (proto =? 0) || (proto =? 3) then
      match (if proto =? 0 then rotor_new stakes else rotor_new_fa1 stakes) with
      | COk sm => match rotor_relay (stdrng rotor_blocks) sm slot slice shred with
                  | RRelay relay => rotor_run n leader relay
                  | _ => None
                  end
      | _ => None
      end
    else if proto =? 1 then
      match turbine_order (stdrng (turbine_blocks (length stakes))) stakes slot (index_in_slot slice shred) with
      | Ok ord _ => turbine_run ord fanout
      | _ => None
      end
    else trivial_run n in
  let mism := match expected with Some e => negb (list_eqb e deliveries) | None => true end in
  (* every validator other than the leader received the shred exactly once and holds the whole slice in its
     blockstore after the run; the leader at most once (Rotor) / exactly once; under Rotor at most one node broadcast *)
  let ok :=
    forallb (fun v => if (v =? leader) && ((proto =? 0) || (proto =? 3))
                      then count_occ_N deliveries v <=? 1
                      else (count_occ_N deliveries v =? 1) && ((v =? leader) || existsb (N.eqb v) stored))
            (seqN 0 (N.to_nat n))
    && forallb (fun v => v <? n) deliveries
    && (if (proto =? 0) || (proto =? 3) then broadcasts <=? 1 else true) in
  emit id (shred + 1) mism (negb ok).

Definition run_c16 (c : c16case) : list (N * N * N) :=
  match c with
  | C16Stream id seed calls =>
    out id 0 (flagN (negb (replay_calls calls (stdrng 16 seed))) 1)
  | C16Rotor id stakes fa1 ctor_panicked slices =>
    let any_panic := existsb (fun b => b) ctor_panicked in
    let model_panics := match (if fa1 then rotor_new_fa1 stakes else rotor_new stakes) with
                        | COk _ => false | _ => true end in
    emit id 0 (negb (Bool.eqb any_panic model_panics)) (any_panic && positive_set stakes)
    ++ run_rotor_slices id stakes fa1 1 slices
  | C16Turbine id stakes fanout complete trees => run_turbine_trees id stakes fanout complete 1 trees
  | C16Run id stakes proto fanout slot slice stored shreds =>
    flat_map (run_shred id stakes proto fanout slot slice stored) shreds
  end.
Definition c16_run (cs : list c16case) : list (N * N * N) := flat_map run_c16 cs.
