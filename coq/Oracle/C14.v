(* C14 case format, model-vs-implementation comparison, and the property oracle on the
   implementation's observations (requests sent, outstanding set, block stored, panic). *)
From Coq Require Import List NArith Bool.
From AG Require Import Gen.Params Model.Pool Model.Blockstore Model.Repair.
Import ListNotations.
Open Scope N_scope.

Inductive rin := IStart (key : N) | IResp (p : rresp).
Record rstep := mkRStep { rs_in : rin; rs_sent : list rreq; rs_outst : list rreq; rs_have : bool; rs_panic : bool }.
Inductive qans := ANone | ASome (a : ranswer).
Record qstep := mkQ { q_req : rreq; q_known : bool; q_ans : qans; q_panic : bool }.
Inductive c14case :=
| RCase (id slot : N) (ct : content) (expected : blockhash) (steps : list rstep)
| QCase (id slot : N) (ct : content) (expected : blockhash) (held_repair held : list bshred) (qs : list qstep).

Fixpoint reqs_eqb (a b : list rreq) : bool :=
  match a, b with [], [] => true | x :: a', y :: b' => rreq_eqb x y && reqs_eqb a' b' | _, _ => false end.
Definition subset_req (a b : list rreq) : bool := forallb (fun x => existsb (rreq_eqb x) b) a.
Definition sameset_req (a b : list rreq) : bool := subset_req a b && subset_req b a.
Definition key_hash (expected : blockhash) (k : N) : blockhash := if k =? 1 then expected else [0].

Definition sends_of (o : list rout) : list rreq := flat_map (fun x => match x with OSend r => [r] | _ => [] end) o.

(* ---- oracle: is this response one that must be ignored? (ground truth: a proof verifies only for
        the true root at the true position, C15; the proven root of slice i is the i-th expected root) ---- *)
Definition nthN (l : list N) (i : N) : option N := if i <? N.of_nat (length l) then nth_error l (N.to_nat i) else None.
Definition must_ignore (expected : blockhash) (outstanding : list rreq) (p : rresp) : bool :=
  let r := resp_req p in
  if negb (existsb (rreq_eqb r) outstanding) then true
  else match p, r with
       | PNack _, _ => false
       | PLast _ _ _ ok, RLast _ => negb ok
       | PRoot _ _ ok, RRoot _ _ => negb ok
       | PShred _ slot_ok s sig_ok, RShred _ slice index =>
         (* a type (data / coding) contradicting the shred index is not the leader's shred: ignored *)
         negb (slot_ok && (b_slice s =? slice) && (b_index s =? index) && sig_ok
               && Bool.eqb (b_index s <? DATA_SHREDS) (b_is_data s)
               && Bool.eqb (b_last s) (slice + 1 =? N.of_nat (length expected))
               && match nthN expected slice with Some root => b_root s =? root | None => false end)
       | _, _ => true
       end.

Definition run_requester (slot : N) (ct : content) (expected : blockhash) (steps : list rstep) : N :=
  let '(_, _, flags) :=
    fold_left (fun (acc : repair * list rreq * N) st =>
                 let '(rp, prev_out, fl) := acc in
                 let '(rp', o) := match rs_in st with
                                  | IStart k => repair_block rp k
                                  | IResp p => handle_response true ct slot (key_hash expected) rp p
                                  end in
                 let model_ok := Bool.eqb (rp_panicked rp') (rs_panic st)
                                 && (rs_panic st || (reqs_eqb (sends_of o) (rs_sent st)
                                                     && sameset_req (rp_outstanding rp') (rs_outst st)
                                                     && Bool.eqb (have_block (rp_store rp') 1) (rs_have st))) in
                 let prop_ok :=
                   negb (rs_panic st)
                   && match rs_in st with
                      | IStart _ => true
                      | IResp p => if must_ignore expected prev_out p
                                   then sameset_req prev_out (rs_outst st) && match rs_sent st with [] => true | _ => false end
                                   else (* progress: a correct answer to an outstanding request is consumed (the request is
                                           no longer outstanding) unless the fetch was started over and asks again *)
                                        match p with
                                        | PNack _ => true
                                        | _ => negb (existsb (rreq_eqb (resp_req p)) (rs_outst st))
                                               || existsb (rreq_eqb (resp_req p)) (rs_sent st)
                                        end
                      end
                   (* the fetch is alive until the block is stored *)
                   && (rs_have st || match rs_outst st with [] => false | _ => true end) in
                 (rp', rs_outst st, N.lor fl (N.lor (if model_ok then 0 else 1) (if prop_ok then 0 else 2))))
              steps (repair_init, [], 0) in
  flags.

(* per-step variant for reporting: (sub id, flags) of the first failing step *)
Definition run_requester_steps (slot : N) (ct : content) (expected : blockhash) (steps : list rstep) : list (N * N) :=
  let '(_, _, _, res) :=
    fold_left (fun (acc : repair * list rreq * N * list (N * N)) st =>
                 let '(rp, prev_out, i, res) := acc in
                 let '(rp', o) := match rs_in st with
                                  | IStart k => repair_block rp k
                                  | IResp p => handle_response true ct slot (key_hash expected) rp p
                                  end in
                 let model_ok := Bool.eqb (rp_panicked rp') (rs_panic st)
                                 && (rs_panic st || (reqs_eqb (sends_of o) (rs_sent st)
                                                     && sameset_req (rp_outstanding rp') (rs_outst st)
                                                     && Bool.eqb (have_block (rp_store rp') 1) (rs_have st))) in
                 let prop_ok :=
                   negb (rs_panic st)
                   && match rs_in st with
                      | IStart _ => true
                      | IResp p => if must_ignore expected prev_out p
                                   then sameset_req prev_out (rs_outst st) && match rs_sent st with [] => true | _ => false end
                                   else (* progress: a correct answer to an outstanding request is consumed (the request is
                                           no longer outstanding) unless the fetch was started over and asks again *)
                                        match p with
                                        | PNack _ => true
                                        | _ => negb (existsb (rreq_eqb (resp_req p)) (rs_outst st))
                                               || existsb (rreq_eqb (resp_req p)) (rs_sent st)
                                        end
                      end
                   && (rs_have st || match rs_outst st with [] => false | _ => true end) in
                 let f := N.lor (if model_ok then 0 else 1) (if prop_ok then 0 else 2) in
                 (* after a model mismatch resynchronisation is impossible: report the first only *)
                 match res with
                 | (_, _) :: _ => (rp', rs_outst st, i + 1, res)
                 | [] => (rp', rs_outst st, i + 1, if f =? 0 then [] else [(i, f)])
                 end)
              steps (repair_init, [], 0, []) in
  res.

Definition bshred_eqb' (a b : bshred) : bool := bshred_eqb a b.
Definition ranswer_eqb (a b : ranswer) : bool :=
  match a, b with
  | ANack, ANack => true
  | ALast l r, ALast l' r' => (l =? l') && (r =? r')
  | ARoot r, ARoot r' => r =? r'
  | AShred s, AShred s' => bshred_eqb' s s'
  | _, _ => false
  end.

Definition answer_sound (expected : blockhash) (r : rreq) (a : ranswer) : bool :=
  match a, r with
  | ANack, _ => true
  | ALast l root, RLast b => (b =? 1) && (l + 1 =? N.of_nat (length expected)) && match nthN expected l with Some x => x =? root | None => false end
  | ARoot root, RRoot b s => (b =? 1) && match nthN expected s with Some x => x =? root | None => false end
  | AShred sh, RShred b s i => (b =? 1) && (b_slice sh =? s) && (b_index sh =? i) && match nthN expected s with Some x => x =? b_root sh | None => false end
  | _, _ => false
  end.

(* the node HOLDS the block through dissemination: for every slice of the expected block at least DATA_SHREDS distinct
   shreds under the expected slice root were delivered (hash-free ground truth; with C14_responder_complete such a
   node answers every in-range request positively) *)
Definition held_distinct (held : list bshred) (s root : N) : N :=
  N.of_nat (length (nodup N.eq_dec (map b_index (filter (fun x => (b_slice x =? s) && (b_root x =? root)) held)))).
Definition block_held (expected : blockhash) (held : list bshred) : bool :=
  match expected with
  | [] => false
  | _ => forallb (fun sr => DATA_SHREDS <=? held_distinct held (fst sr) (snd sr))
                 (combine (map N.of_nat (seq 0 (length expected))) expected)
  end.

Definition run_responder (slot : N) (ct : content) (expected : blockhash) (held_repair held : list bshred) (qs : list qstep) : list (N * N) :=
  (* shreds filed through repair under the block's own hash first, then the dissemination *)
  let sd0 := fold_left (fun sd s => fst (fst (bs_step true ct slot sd (BRepair 1 expected s)))) held_repair sd_empty in
  let sd := fold_left (fun sd s => fst (fst (bs_step true ct slot sd (BDissem s)))) held sd0 in
  let '(_, res) :=
    fold_left (fun (acc : N * list (N * N)) q =>
                 let '(i, res) := acc in
                 let m := if q_known q then ASome (answer sd (key_hash expected) (q_req q)) else ANone in
                 let model_ok := negb (q_panic q)
                                 && match m, q_ans q with
                                    | ANone, ANone => true
                                    | ASome a, ASome b => ranswer_eqb a b
                                    | _, _ => false end in
                 let prop_ok := negb (q_panic q)
                                && match q_ans q with
                                   | ANone => negb (q_known q)
                                   | ASome a => answer_sound expected (q_req q) a
                                   end
                                (* completeness: a request the specification answers positively about a block the node
                                   holds must not be refused *)
                                && negb (block_held expected held
                                         && match m with ASome ANack | ANone => false | ASome _ => true end
                                         && match q_ans q with ASome ANack => true | _ => false end) in
                 let f := N.lor (if model_ok then 0 else 1) (if prop_ok then 0 else 2) in
                 (i + 1, if f =? 0 then res else res ++ [(i, f)]))
              qs (0, []) in
  res.

Definition c14_run (cs : list c14case) : list (N * N * N) :=
  flat_map (fun c => match c with
                     | RCase id slot ct expected steps => map (fun x => (id, fst x, snd x)) (run_requester_steps slot ct expected steps)
                     | QCase id slot ct expected held_repair held qs => map (fun x => (id, fst x, snd x)) (run_responder slot ct expected held_repair held qs)
                     end) cs.
