(* C01, node-level tie: the case format is the Votor trace of Oracle/VotorRun.v (inputs handed to the
   REAL Votor, its broadcasts, scheduled time-outs, retained slots, panic flag).
     flag 1 = the Votor model (votor_step) differs from the implementation on that step;
     flag 2 = the IMPLEMENTATION's own vote history violates a voting rule (Model/NodeRules.v
              vote_okb: R0-R3, the R6 guard, fallback votes only on the corresponding pool event,
              own signer), judged against the own votes broadcast so far and the evidence handed
              up to and including the current event. *)
From Coq Require Import List NArith Bool.
From AG Require Import Gen.Params Model.Pool Model.PoolSpec Model.Votor Model.Safety Model.NodeRules
                       Oracle.PoolRun Oracle.VotorRun.
Import ListNotations.
Open Scope N_scope.

Fixpoint c01_steps (e : epoch) (t : votor) (older : list vote) (ev : evidence) (k : N) (steps : list vstep) (id : N)
  : list (N * N * N) :=
  match steps with
  | [] => []
  | st :: rest =>
    let '(t', outs, pan) := votor_step (own e) t (vs_in st) in
    let same :=
      Bool.eqb pan (vs_panicked st)
      && (pan || (list_eqb vout_eqb (filter is_bcast outs) (vs_out st)
                  && listN_eqb (timeouts_of outs) (vs_timeouts st)
                  && mset_eqb N.eqb (map fst (vt_slots t')) (vs_retained st))) in
    let ev' := ev_add_input ev (vs_in st) in
    let new := decision_votes (vs_in st) (vs_out st) in          (* the implementation's broadcasts *)
    let ok := forallb (fun v => v_signer v =? own e) new && rules_ok_from older ev' new in
    let fl := N.lor (flagv (negb same) 1) (flagv (negb ok) 2) in
    (if fl =? 0 then [] else [(id, k, fl)]) ++ c01_steps e t' (older ++ new) ev' (k + 1) rest id
  end.

Definition c01_case (c : vcase) : list (N * N * N) :=
  match c with
  | VCase id stakes own init_t steps =>
    (if listN_eqb init_t [0] then [] else [(id, 999999, 1)])
    ++ c01_steps (mkEpoch stakes own) votor_init [] ev_empty 0 steps id
  end.
Definition c01_run (cs : list vcase) : list (N * N * N) := flat_map c01_case cs.
