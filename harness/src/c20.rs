//! C20: execution state (persistent trie, fork isolation, canonical form), lattice-hash commitment,
//! placeholder engine.  Runs the REAL `State`, `LtHash` and `DummyExecution` on structured operation
//! sequences and renders every observation for the Coq model / oracle (Oracle/C20.v).
use std::collections::{BTreeMap, HashMap, HashSet};
use std::panic::{AssertUnwindSafe, catch_unwind};

use alpenglow::crypto::Hash;
use alpenglow::crypto::merkle::{BlockHash, MerkleRoot};
use alpenglow::execution::commitment::{LtHash, StateCommitment};
use alpenglow::execution::state::{Address, State};
use alpenglow::execution::{DummyExecution, ExecutionEngine, ExecutionEvent, InProgressBlock};
use alpenglow::types::Slot;
use alpenglow::{BlockId, Transaction};
use tokio::sync::mpsc;

use crate::coqfmt as cf;
use crate::rng::Rng;
use crate::{CaseSet, Stats, Tier};

const NCHUNKS: usize = 52;

fn chunk_of(k: &Address, d: usize) -> u32 {
    // independent of the crate: 5-bit groups of the big-endian bit string, last group zero padded
    let mut v = 0u32;
    for t in 0..5 {
        let bit = d * 5 + t;
        let b = if bit < 256 { (k[bit / 8] >> (7 - bit % 8)) & 1 } else { 0 };
        v = (v << 1) | b as u32;
    }
    v
}
fn common_chunks(a: &Address, b: &Address) -> usize {
    (0..NCHUNKS).take_while(|&d| chunk_of(a, d) == chunk_of(b, d)).count()
}
fn set_bit(k: &mut Address, bit: usize, v: bool) {
    if bit < 256 {
        let m = 1u8 << (7 - bit % 8);
        if v { k[bit / 8] |= m } else { k[bit / 8] &= !m }
    }
}
fn get_bit(k: &Address, bit: usize) -> bool {
    bit < 256 && (k[bit / 8] >> (7 - bit % 8)) & 1 == 1
}

/// Depths at which clustered keys split: shallow, middle, around byte-straddling chunks, the last chunks.
const SPLIT_DEPTHS: [usize; 16] = [0, 1, 2, 3, 4, 7, 12, 13, 25, 31, 38, 47, 48, 49, 50, 51];

/// A pool of keys built from clusters: members of a cluster share the first `d` chunks with the cluster's
/// base key and differ in chunk `d` (and possibly beyond).
fn key_pool(rng: &mut Rng, want: usize, deep: bool, depth_hist: &mut BTreeMap<usize, u64>) -> Vec<Address> {
    let mut keys: Vec<Address> = Vec::new();
    let mut push = |k: Address, keys: &mut Vec<Address>| {
        if !keys.contains(&k) { keys.push(k); }
    };
    let nclusters = rng.range(1, 3);
    for _ in 0..nclusters {
        let mut base: Address = [0; 32];
        match rng.below(5) {
            0 => base = [0x00; 32],
            1 => base = [0xFF; 32],
            2 => base = [0xAB; 32],
            _ => { let b = rng.bytes(32); base.copy_from_slice(&b); }
        }
        push(base, &mut keys);
        let members = (want / nclusters as usize).max(2);
        for _ in 0..members {
            let d = if deep { *rng.pick(&SPLIT_DEPTHS[8..]) } else { *rng.pick(&SPLIT_DEPTHS) };
            let mut k = base;
            match rng.below(6) {
                // differ ONLY inside chunk d (one bit of it)
                0 | 1 => { let t = rng.below(5) as usize; let bit = d * 5 + t; if bit < 256 { let v = get_bit(&k, bit); set_bit(&mut k, bit, !v); } else { let v = get_bit(&k, 255); set_bit(&mut k, 255, !v); } }
                // differ in a bit right before / after a byte boundary inside a straddling chunk
                2 => {
                    let lo = d * 5; let hi = (d * 5 + 4).min(255);
                    let boundary = (hi / 8) * 8;
                    let bit = if boundary > lo && boundary <= hi { if rng.chance(1, 2) { boundary - 1 } else { boundary } } else { lo.min(255) };
                    let v = get_bit(&k, bit); set_bit(&mut k, bit, !v);
                }
                // share d chunks, random tail
                3 | 4 => { for bit in (d * 5)..256 { set_bit(&mut k, bit, rng.chance(1, 2)); } }
                // differ only in the very last bit (depth 51) or the last byte
                _ => { if rng.chance(1, 2) { k[31] ^= 1; } else { k[31] = rng.next() as u8; } }
            }
            if k != base { *depth_hist.entry(common_chunks(&k, &base)).or_default() += 1; }
            push(k, &mut keys);
        }
    }
    while keys.len() < 2 { let b = rng.bytes(32); let mut k = [0u8; 32]; k.copy_from_slice(&b); push(k, &mut keys); }
    keys
}

fn digest_bytes(l: &LtHash) -> Vec<u8> {
    let c: StateCommitment = l.digest();
    let h: Hash = c.into();
    h.as_ref().to_vec()
}

struct ForkI { state: State, lt: LtHash }

#[derive(Default)]
struct Counters { ins_new: u64, ins_over: u64, rem_hit: u64, rem_miss: u64, forks: u64, snaps: u64, eq_true: u64, eq_false: u64, max_forks: u64, max_len: u64 }

/// Renders an option of a value as an option of its index in the value table (out-of-table -> 999999).
fn ret_idx(r: &Option<Vec<u8>>, vals: &[Vec<u8>]) -> String {
    match r {
        None => "None".into(),
        Some(v) => format!("(Some {})", vals.iter().position(|x| x == v).map(|i| i as u64).unwrap_or(999_999)),
    }
}

struct StateCase { text: String, descr: String, evals: u64, nontrivial: bool, panicked: bool, harness_finding: Option<String> }

#[derive(Clone, Copy, PartialEq)]
enum Plan { Mixed, Permutations, DeepCollapse }

fn state_case(cid: u64, rng: &mut Rng, tier: Tier, hashing: bool, plan: Plan, it: &mut cf::Interner, cnt: &mut Counters, depth_hist: &mut BTreeMap<usize, u64>) -> StateCase {
    let (max_ops, max_forks, pool) = match (tier, hashing) {
        (_, true) => (rng.range(4, 10) as usize, 3usize, rng.range(2, 5) as usize),
        (Tier::Quick, false) => (rng.range(10, 120) as usize, 5usize, rng.range(4, 28) as usize),
        (Tier::Thorough, false) => (rng.range(20, 200) as usize, 16usize, rng.range(4, 40) as usize),
    };
    let keys = key_pool(rng, pool, plan == Plan::DeepCollapse, depth_hist);
    let nvals = rng.range(2, 6) as usize;
    let mut vals: Vec<Vec<u8>> = vec![vec![]];                  // the empty value is always available
    while vals.len() < nvals { let l = rng.range(1, 15) as usize; let v = rng.bytes(l); if !vals.contains(&v) { vals.push(v); } }

    let mut forks: Vec<ForkI> = vec![ForkI { state: State::new(), lt: LtHash::identity() }];
    let mut segs: Vec<String> = Vec::new();
    let mut cur_ops: Vec<String> = Vec::new();
    let mut evals = 0u64;
    let mut panicked = false;
    let mut finding: Option<String> = None;
    let mut nontrivial = false;

    // the operation script
    #[derive(Clone)]
    enum Op { I(usize, usize, usize), R(usize, usize), F(usize), Snap }
    let mut script: Vec<Op> = Vec::new();
    match plan {
        Plan::Mixed | Plan::DeepCollapse => {
            // fork 1 is split off while empty and left untouched until the end, where it receives fork 0's
            // final contents in a fresh order: a long history must equal a fresh build
            let mut nf = 1usize;
            let mut present: Vec<BTreeMap<usize, usize>> = vec![BTreeMap::new()];
            let reserve = !hashing || rng.chance(1, 2);
            if reserve { script.push(Op::F(0)); present.push(BTreeMap::new()); nf += 1; }
            let writable = |rng: &mut Rng, nf: usize| -> usize { loop { let f = rng.below(nf as u64) as usize; if !(reserve && f == 1) { return f; } } };
            let snap_every = (max_ops / 3).max(2);
            for i in 0..max_ops {
                let f = writable(rng, nf);
                let r = rng.below(100);
                if r < 7 && nf < max_forks {
                    script.push(Op::F(f)); let p = present[f].clone(); present.push(p); nf += 1;
                } else if r < 12 && nf < max_forks && present[f].len() < keys.len() {
                    // probe: fork, insert an absent key (splitting a leaf or a branch) and remove it again:
                    // the clone must compare equal to its origin
                    let absent: Vec<usize> = (0..keys.len()).filter(|k| !present[f].contains_key(k)).collect();
                    let k = *rng.pick(&absent);
                    let g = nf;
                    script.push(Op::F(f)); let p = present[f].clone(); present.push(p); nf += 1;
                    script.push(Op::I(g, k, rng.below(vals.len() as u64) as usize));
                    script.push(Op::R(g, k));
                    script.push(Op::Snap);
                } else if r < 60 || present[f].is_empty() {
                    let k = rng.below(keys.len() as u64) as usize;
                    let v = rng.below(vals.len() as u64) as usize;
                    script.push(Op::I(f, k, v)); present[f].insert(k, v);
                } else if r < 90 {
                    // remove a present key (collapses branches when its cluster sibling stays behind)
                    let ks: Vec<usize> = present[f].keys().cloned().collect();
                    let k = ks[rng.below(ks.len() as u64) as usize];
                    script.push(Op::R(f, k)); present[f].remove(&k);
                } else {
                    let k = rng.below(keys.len() as u64) as usize;
                    script.push(Op::R(f, k)); present[f].remove(&k);
                }
                if (i + 1) % snap_every == 0 { script.push(Op::Snap); }
            }
            script.push(Op::Snap);
            if reserve {
                let mut content: Vec<(usize, usize)> = present[0].iter().map(|(k, v)| (*k, *v)).collect();
                rng.shuffle(&mut content);
                for (k, v) in content { script.push(Op::I(1, k, v)); }
                script.push(Op::Snap);
            }
        }
        Plan::Permutations => {
            // equal contents reached along different histories in different forks (all split off while empty)
            let nf = if hashing { 3 } else { rng.range(3, max_forks.min(6) as u64) as usize };
            for _ in 1..nf { script.push(Op::F(0)); }
            let m = rng.range(2, keys.len().min(if hashing { 3 } else { 24 }) as u64) as usize;
            let mut chosen: Vec<usize> = (0..keys.len()).collect(); rng.shuffle(&mut chosen); chosen.truncate(m);
            let content: Vec<(usize, usize)> = chosen.iter().map(|&k| (k, rng.below(vals.len() as u64) as usize)).collect();
            let extras: Vec<usize> = (0..keys.len()).filter(|k| !chosen.contains(k)).collect();
            let mut per_fork: Vec<Vec<Op>> = Vec::new();
            for f in 0..nf {
                let mut order = content.clone(); rng.shuffle(&mut order);
                let mut ops: Vec<Op> = Vec::new();
                match f % 4 {
                    0 => { for (k, v) in &order { ops.push(Op::I(f, *k, *v)); } }
                    1 => {
                        // unrelated entries first, removed at the end
                        let ex: Vec<usize> = extras.iter().cloned().filter(|_| rng.chance(1, 2)).collect();
                        for k in &ex { ops.push(Op::I(f, *k, 0)); }
                        for (k, v) in &order { ops.push(Op::I(f, *k, *v)); }
                        let mut ex2 = ex.clone(); rng.shuffle(&mut ex2);
                        for k in &ex2 { ops.push(Op::R(f, *k)); }
                    }
                    2 => {
                        // wrong values first, overwritten later; some entries removed and re-inserted
                        for (k, _) in &order { ops.push(Op::I(f, *k, rng.below(vals.len() as u64) as usize)); }
                        let mut o2 = order.clone(); rng.shuffle(&mut o2);
                        for (k, v) in &o2 { if rng.chance(1, 3) { ops.push(Op::R(f, *k)); } ops.push(Op::I(f, *k, *v)); }
                    }
                    _ => {
                        // everything, then remove all, then again in reverse
                        for (k, v) in &order { ops.push(Op::I(f, *k, *v)); }
                        for (k, _) in &order { ops.push(Op::R(f, *k)); }
                        for (k, v) in order.iter().rev() { ops.push(Op::I(f, *k, *v)); }
                    }
                }
                per_fork.push(ops);
            }
            // interleave the per-fork histories
            let mut idx = vec![0usize; nf];
            loop {
                let live: Vec<usize> = (0..nf).filter(|&f| idx[f] < per_fork[f].len()).collect();
                if live.is_empty() { break; }
                let f = *rng.pick(&live);
                script.push(per_fork[f][idx[f]].clone()); idx[f] += 1;
            }
            script.push(Op::Snap);
            // then diverge one fork and come back
            let k = content[0].0;
            script.push(Op::R(nf - 1, k)); script.push(Op::Snap);
            script.push(Op::I(nf - 1, k, content[0].1)); script.push(Op::Snap);
        }
    }

    for op in script {
        if panicked { break; }
        match op {
            Op::I(f, k, v) => {
                let key = keys[k]; let val = vals[v].clone();
                let r = catch_unwind(AssertUnwindSafe(|| {
                    let fk = &mut forks[f];
                    let old = fk.state.insert(key, val.clone());
                    fk.lt.observe(&key, old.as_deref(), Some(&val));
                    old
                }));
                match r {
                    Ok(old) => {
                        if old.is_some() { cnt.ins_over += 1 } else { cnt.ins_new += 1 }
                        if let Some(o) = &old { if !vals.contains(o) { finding = Some("state:insert-returned-foreign-value".into()); } }
                        cur_ops.push(format!("OI {} {} {} {}", f, k, v, ret_idx(&old, &vals)));
                    }
                    Err(_) => { panicked = true; finding = Some("state:insert-panicked".into()); }
                }
                evals += 1;
            }
            Op::R(f, k) => {
                let key = keys[k];
                let r = catch_unwind(AssertUnwindSafe(|| {
                    let fk = &mut forks[f];
                    let old = fk.state.remove(&key);
                    fk.lt.observe(&key, old.as_deref(), None);
                    old
                }));
                match r {
                    Ok(old) => {
                        if old.is_some() { cnt.rem_hit += 1; nontrivial = true } else { cnt.rem_miss += 1 }
                        cur_ops.push(format!("OR {} {} {}", f, k, ret_idx(&old, &vals)));
                    }
                    Err(_) => { panicked = true; finding = Some("state:remove-panicked".into()); }
                }
                evals += 1;
            }
            Op::F(f) => {
                let nf = ForkI { state: forks[f].state.clone(), lt: forks[f].lt.clone() };
                forks.push(nf); cnt.forks += 1; nontrivial = true;
                cur_ops.push(format!("OF {}", f));
            }
            Op::Snap => {
                let r = catch_unwind(AssertUnwindSafe(|| {
                    let mut snaps: Vec<String> = Vec::new();
                    for fk in &forks {
                        let iter: Vec<String> = fk.state.iter().map(|(k, v)| {
                            let ki = keys.iter().position(|x| x == k).map(|i| i as u64).unwrap_or(999_999);
                            let vi = vals.iter().position(|x| x.as_slice() == v).map(|i| i as u64).unwrap_or(999_999);
                            format!("({}, {})", ki, vi)
                        }).collect();
                        let gets: Vec<String> = keys.iter().map(|k| ret_idx(&fk.state.get(k).map(|v| v.to_vec()), &vals)).collect();
                        let dig = if hashing {
                            let inc = digest_bytes(&fk.lt);
                            let mut rec = LtHash::identity();
                            for (k, v) in &fk.state { rec.add_entry(k, v); }
                            let mut entries: Vec<(Address, Vec<u8>)> = fk.state.iter().map(|(k, v)| (*k, v.to_vec())).collect();
                            entries.reverse();
                            if entries.len() > 2 { let n = entries.len(); entries.swap(0, n / 2); }
                            let mut shuf = LtHash::identity();
                            for (k, v) in &entries { shuf.add_entry(k, v); }
                            format!("(Some ({}, {}, {}))", cf::hex(&inc), cf::hex(&digest_bytes(&rec)), cf::hex(&digest_bytes(&shuf)))
                        } else { "None".to_string() };
                        snaps.push(format!("Snap {} {} {} {}", fk.state.len(), cf::list(&iter), cf::list(&gets), dig));
                    }
                    let mut eqm: Vec<String> = Vec::new();
                    let mut t = 0u64; let mut fl = 0u64;
                    for a in &forks { for b in &forks { let e = a.state == b.state; if e { t += 1 } else { fl += 1 } eqm.push(cf::b(e)); } }
                    (snaps, eqm, t, fl)
                }));
                match r {
                    Ok((snaps, eqm, t, fl)) => {
                        cnt.snaps += 1; cnt.eq_true += t; cnt.eq_false += fl;
                        evals += snaps.len() as u64 + eqm.len() as u64;
                        segs.push(format!("Seg {} {} {}", cf::list(&cur_ops), cf::list(&snaps), cf::list(&eqm)));
                        cur_ops.clear();
                    }
                    Err(_) => { panicked = true; finding = Some("state:observation-panicked".into()); }
                }
            }
        }
        cnt.max_forks = cnt.max_forks.max(forks.len() as u64);
        for fk in &forks { cnt.max_len = cnt.max_len.max(fk.state.len() as u64); }
    }
    if !cur_ops.is_empty() { segs.push(format!("Seg {} [] []", cf::list(&cur_ops))); }
    let keys_txt: Vec<String> = keys.iter().map(|k| it.hex(k)).collect();
    let vals_txt: Vec<String> = vals.iter().map(|v| it.hex(v)).collect();
    let text = format!("(C20S {} {} {} {} {} {})", cid, cf::b(hashing), cf::list(&keys_txt), cf::list(&vals_txt), cf::list(&segs), cf::b(panicked));
    let pname = match plan { Plan::Mixed => "mixed", Plan::Permutations => "permutations", Plan::DeepCollapse => "deep-collapse" };
    let descr = format!("case {}: state {} ({} keys, {} values, {} forks, {} segments, hashing={})", cid, pname, keys.len(), vals.len(), forks.len(), segs.len(), hashing);
    StateCase { text, descr, evals, nontrivial, panicked, harness_finding: finding }
}

// ------------------------------------------------------------------ engine
fn bh(id: u64) -> BlockHash {
    // block hash "id": 32 bytes, id 0 = the genesis block hash
    let mut b = [0u8; 32];
    b[..8].copy_from_slice(&id.to_be_bytes());
    if id != 0 { b[31] = 0xC2; }
    let h: Hash = wincode::deserialize(&b).expect("32 bytes");
    h.into()
}
fn bh_bytes(h: &BlockHash) -> Vec<u8> { h.as_hash().as_ref().to_vec() }

struct EngineCase { text: String, descr: String, evals: u64, foreign_pending: bool, events: u64, panicked: bool }

fn engine_case(cid: u64, rng: &mut Rng, tier: Tier, force_foreign: bool, it: &mut cf::Interner, kinds: &mut BTreeMap<&'static str, u64>) -> EngineCase {
    let nblocks = match tier { Tier::Quick => rng.range(2, 7), Tier::Thorough => rng.range(2, 14) } as usize;
    // a block tree: block i has a slot, a hash id, a parent (earlier block, an unknown block, or none)
    #[derive(Clone)]
    struct Blk { slot: u64, hash: u64, parent: Option<(u64, u64)>, known: bool, slices: Vec<Vec<Vec<u8>>> }
    let mut blocks: Vec<Blk> = Vec::new();
    let mut next_hash = 1u64;
    for i in 0..nblocks {
        let slot = if i > 0 && rng.chance(1, 4) { blocks[rng.below(i as u64) as usize].slot } else { i as u64 + 1 + rng.below(2) };
        let hash = next_hash; next_hash += 1;
        let parent = match rng.below(10) {
            0 => None,
            1 | 2 => { let h = next_hash; next_hash += 1; Some((slot.saturating_sub(1), h)) }       // never executed
            _ if i > 0 => { let p = &blocks[rng.below(i as u64) as usize]; Some((p.slot, p.hash)) }
            _ => None,
        };
        let nsl = rng.range(0, 3) as usize;
        let slices = (0..nsl).map(|_| { let nt = rng.range(0, 3) as usize; (0..nt).map(|_| { let l = rng.range(0, 20) as usize; rng.bytes(l) }).collect() }).collect();
        blocks.push(Blk { slot, hash, parent, known: rng.chance(1, 4), slices });
    }
    if force_foreign {
        // a pending block of slot s ends as (s, hA); another block names (s, hB) as its parent
        let s = 40 + rng.below(3);
        let ha = next_hash; let hb = next_hash + 1; next_hash += 2;
        let tl = rng.range(1, 9) as usize;
        let tx = rng.bytes(tl);
        blocks.insert(0, Blk { slot: s, hash: ha, parent: None, known: false, slices: vec![vec![tx]] });
        let l = rng.range(0, 9) as usize;
        blocks.push(Blk { slot: s + 1, hash: next_hash, parent: Some((s, hb)), known: false, slices: vec![vec![rng.bytes(l)]] });
    }
    // schedule: per block begin, slices, end; blocks interleave, a block never begins before its known parent began
    #[derive(Clone)]
    enum EOp { Begin(usize), Exec(usize, usize), End(usize), Finalize(u64, u64), EndUnknown(u64, u64), ExecUnknown(u64), Rebegin(usize) }
    let mut prog: Vec<usize> = vec![0; blocks.len()];            // 0 = not begun, 1.. = next slice + 1, last = ended
    let mut sched: Vec<EOp> = Vec::new();
    let total: usize = blocks.iter().map(|b| b.slices.len() + 2).sum();
    let mut done = 0usize;
    let mut guard = 0;
    while done < total && guard < 10_000 {
        guard += 1;
        // blocks are started in order (so that a parent is usually begun first) but progress interleaves
        let started: Vec<usize> = (0..blocks.len()).filter(|&i| prog[i] > 0 && prog[i] < blocks[i].slices.len() + 2).collect();
        let next_new = (0..blocks.len()).find(|&i| prog[i] == 0);
        let pick_new = next_new.is_some() && (started.is_empty() || rng.chance(1, 3));
        if pick_new {
            let i = next_new.unwrap();
            // in the forced scenario the first block must END before the last one begins
            if force_foreign && i == blocks.len() - 1 && prog[0] < blocks[0].slices.len() + 2 {
                let j = 0; let st = prog[j];
                if st == 0 { sched.push(EOp::Begin(j)); } else if st <= blocks[j].slices.len() { sched.push(EOp::Exec(j, st - 1)); } else { sched.push(EOp::End(j)); }
                prog[j] += 1; done += 1; continue;
            }
            sched.push(EOp::Begin(i)); prog[i] = 1; done += 1;
        } else if !started.is_empty() {
            let i = *rng.pick(&started);
            let st = prog[i];
            if st <= blocks[i].slices.len() { sched.push(EOp::Exec(i, st - 1)); } else { sched.push(EOp::End(i)); }
            prog[i] += 1; done += 1;
        }
        // hostile / boundary calls sprinkled in
        match rng.below(40) {
            0 => { let b = rng.pick(&blocks); if !force_foreign { sched.push(EOp::Finalize(b.slot, b.hash)); } }
            1 => sched.push(EOp::EndUnknown(90 + rng.below(5), 7000 + rng.below(3))),
            2 => sched.push(EOp::ExecUnknown(95 + rng.below(3))),
            3 => { let i = rng.below(blocks.len() as u64) as usize; if prog[i] > 0 && !force_foreign { sched.push(EOp::Rebegin(i)); } }
            _ => {}
        }
    }
    let (tx, mut rx) = mpsc::channel(4096);
    let mut engine = DummyExecution::new(tx);
    let ipb = |b: &Blk| if b.known { InProgressBlock::Known((Slot::new(b.slot), bh(b.hash))) } else { InProgressBlock::Pending(Slot::new(b.slot)) };
    let mut h = |v: &[u8], it: &mut cf::Interner| it.hex(v);
    let ipb_txt = |b: &Blk, it: &mut cf::Interner| if b.known { format!("(CK {} {})", b.slot, it.hex(&bh_bytes(&bh(b.hash)))) } else { format!("(CP {})", b.slot) };
    let mut steps: Vec<String> = Vec::new();
    let mut panicked = false;
    let mut evals = 0u64;
    let mut nevents = 0u64;
    // harness-side bookkeeping for the signature: which hash a pending slot entry ended under
    let mut pending_ended: HashMap<u64, Option<u64>> = HashMap::new();
    let mut known_live: HashSet<(u64, u64)> = HashSet::new();
    let mut foreign_pending = false;
    for op in &sched {
        let (txt, r): (String, Result<(), ()>) = match op {
            EOp::Begin(i) | EOp::Rebegin(i) => {
                let b = &blocks[*i];
                *kinds.entry(match (b.parent.is_some(), b.known) { (false, _) => "begin:no-parent", (true, false) => "begin:pending", (true, true) => "begin:known" }).or_default() += 1;
                if let Some((ps, ph)) = b.parent {
                    if !known_live.contains(&(ps, ph)) {
                        if let Some(Some(e)) = pending_ended.get(&ps) { if *e != ph { foreign_pending = true; } }
                    }
                }
                if b.known { known_live.insert((b.slot, b.hash)); } else { pending_ended.insert(b.slot, None); }
                let parent: Option<BlockId> = b.parent.map(|(s, hh)| (Slot::new(s), bh(hh)));
                let ptxt = cf::opt(b.parent.map(|(s, hh)| format!("({}, {})", s, h(&bh_bytes(&bh(hh)), it))));
                let id = ipb(b);
                (format!("EB {} {}", ipb_txt(b, it), ptxt), catch_unwind(AssertUnwindSafe(|| engine.begin_block(id, parent))).map_err(|_| ()))
            }
            EOp::Exec(i, s) => {
                let b = &blocks[*i];
                *kinds.entry("exec").or_default() += 1;
                let txs: Vec<Transaction> = b.slices[*s].iter().map(|t| Transaction(t.clone())).collect();
                let ttxt: Vec<String> = b.slices[*s].iter().map(|t| h(t, it)).collect();
                let id = ipb(b);
                (format!("EX {} {}", ipb_txt(b, it), cf::list(&ttxt)), catch_unwind(AssertUnwindSafe(|| engine.execute_transactions(id, txs))).map_err(|_| ()))
            }
            EOp::End(i) => {
                let b = &blocks[*i];
                *kinds.entry("end").or_default() += 1;
                if !b.known { if let Some(e) = pending_ended.get_mut(&b.slot) { *e = Some(b.hash); } }
                let bid: BlockId = (Slot::new(b.slot), bh(b.hash));
                (format!("EN ({}, {})", b.slot, h(&bh_bytes(&bh(b.hash)), it)), catch_unwind(AssertUnwindSafe(|| engine.end_block(bid))).map_err(|_| ()))
            }
            EOp::Finalize(s, hh) => {
                *kinds.entry("finalize").or_default() += 1;
                pending_ended.retain(|k, _| *k >= *s); known_live.retain(|(k, _)| *k >= *s);
                let bid: BlockId = (Slot::new(*s), bh(*hh));
                (format!("EF ({}, {})", s, h(&bh_bytes(&bh(*hh)), it)), catch_unwind(AssertUnwindSafe(|| engine.finalize(bid))).map_err(|_| ()))
            }
            EOp::EndUnknown(s, hh) => {
                *kinds.entry("end:unknown-block").or_default() += 1;
                let bid: BlockId = (Slot::new(*s), bh(*hh));
                (format!("EN ({}, {})", s, h(&bh_bytes(&bh(*hh)), it)), catch_unwind(AssertUnwindSafe(|| engine.end_block(bid))).map_err(|_| ()))
            }
            EOp::ExecUnknown(s) => {
                *kinds.entry("exec:unknown-block").or_default() += 1;
                let id = InProgressBlock::Pending(Slot::new(*s));
                (format!("EX (CP {}) [{}]", s, cf::hex(&[1, 2])), catch_unwind(AssertUnwindSafe(|| engine.execute_transactions(id, vec![Transaction(vec![1, 2])]))).map_err(|_| ()))
            }
        };
        if r.is_err() { panicked = true; }
        let mut evs: Vec<String> = Vec::new();
        while let Ok(ev) = rx.try_recv() {
            let ExecutionEvent::BlockExecuted { block_id, result } = ev;
            match result {
                Ok(res) => {
                    let c: Hash = res.state_commitment.into();
                    evs.push(format!("({}, {}, {}, {})", block_id.0.inner(), h(&bh_bytes(&block_id.1), it), res.tx_count, h(c.as_ref(), it)));
                }
                Err(_) => evs.push(format!("({}, {}, 999999, {})", block_id.0.inner(), h(&bh_bytes(&block_id.1), it), cf::hex(&[]))),
            }
            nevents += 1;
        }
        evals += 1;
        steps.push(format!("({}, {})", txt, cf::list(&evs)));
        if panicked { break; }
    }
    let text = format!("(C20E {} {} {})", cid, cf::list(&steps), cf::b(panicked));
    let descr = format!("case {}: engine ({} blocks, {} calls, {} events{})", cid, blocks.len(), steps.len(), nevents, if foreign_pending { ", child begun on a parent whose slot holds another, already ended pending block" } else { "" });
    EngineCase { text, descr, evals, foreign_pending, events: nevents, panicked }
}

pub fn gen_c20(seed: u64, tier: Tier) -> CaseSet {
    let mut rng = Rng::new(seed ^ 0xC20);
    let (n_state, n_hash, n_engine) = match tier { Tier::Quick => (220u64, 48u64, 120u64), Tier::Thorough => (3000, 500, 2000) };
    let mut it = cf::Interner::default();
    let mut cases = Vec::new();
    let mut descr = Vec::new();
    let mut sigs = Vec::new();
    let mut stats = Stats::default();
    let mut seen: HashSet<String> = HashSet::new();
    let mut cnt = Counters::default();
    let mut depth_hist: BTreeMap<usize, u64> = BTreeMap::new();
    let mut kinds: BTreeMap<&'static str, u64> = BTreeMap::new();
    let mut plan_count: BTreeMap<&'static str, u64> = BTreeMap::new();
    let mut cid = 0u64;
    for i in 0..(n_state + n_hash) {
        let hashing = i >= n_state;
        let plan = match rng.below(4) { 0 => Plan::Permutations, 1 => Plan::DeepCollapse, _ => Plan::Mixed };
        *plan_count.entry(match plan { Plan::Mixed => "mixed", Plan::Permutations => "permutations", Plan::DeepCollapse => "deep-collapse" }).or_default() += 1;
        let c = state_case(cid, &mut rng, tier, hashing, plan, &mut it, &mut cnt, &mut depth_hist);
        stats.evaluations += c.evals;
        if seen.insert(c.text.clone()) && c.nontrivial { stats.distinct_nontrivial += 1; }
        if let Some(f) = &c.harness_finding { stats.harness_findings.push((cid, f.clone())); }
        sigs.push((cid, 0, if c.panicked { "state:panic".to_string() } else if hashing { "state:ops+lthash".to_string() } else { "state:ops".to_string() }));
        if stats.samples.len() < 2 && (i == 2 || i == n_state) { stats.samples.push(c.text.chars().take(600).collect()); }
        descr.push(c.descr); cases.push(c.text); cid += 1;
    }
    let mut foreign = 0u64; let mut events = 0u64;
    for i in 0..n_engine {
        let c = engine_case(cid, &mut rng, tier, i % 6 == 0, &mut it, &mut kinds);
        stats.evaluations += c.evals; events += c.events;
        if seen.insert(c.text.clone()) && c.events > 0 { stats.distinct_nontrivial += 1; }
        if c.foreign_pending { foreign += 1; }
        if c.panicked { stats.harness_findings.push((cid, "engine:panic".to_string())); }
        sigs.push((cid, 0, if c.foreign_pending { "engine:parent-lookup-by-slot:foreign-pending-block".to_string() } else { "engine:trace".to_string() }));
        if i == 0 { stats.samples.push(c.text.chars().take(600).collect()); }
        descr.push(c.descr); cases.push(c.text); cid += 1;
    }
    stats.rule = "state cases: key pools built from 1-3 clusters (base key all-00 / all-FF / AB.. / random; members share the first d chunks with the base for d in {0..4,7,12,13,25,31,38,47..51}, differing in one bit of chunk d, in the bit before/after a byte boundary inside a straddling chunk, in the last bit / last byte, or in a random tail), values from a small table incl. the empty value; plans: mixed (insert / overwrite / remove present / remove absent / fork at any point, writes interleaved across up to 5 (thorough 16) forks, snapshots of EVERY fork (len, ordered iteration, lookups of every pool key, `==` matrix) three times per case), permutations (forks split off while empty, the same contents inserted in different orders, with unrelated entries added and removed, overwritten, removed and re-inserted; all forks must compare equal; then one fork diverges and returns), deep-collapse (clusters splitting at chunks 25..51, removals of cluster siblings); hashing cases additionally maintain an LtHash per fork via observe and compare its digest with the digest recomputed from the fork's iteration (in order and reordered) and with the model's sum; engine cases: block trees (equivocating blocks in one slot, parents that were never executed, no parent), Pending / Known ids, transactions in 0-3 slices, interleaved schedules, finalize, end/execute for unknown blocks, re-begin; every sixth case forces a pending block of slot s ending under hash A followed by a child naming (s, B) as parent; non-trivial = state case with a fork or an effective removal / engine case with at least one event; distinct by full text".into();
    stats.distribution.push(("plans".into(), plan_count.iter().map(|(k, v)| format!("{}={}", k, v)).collect::<Vec<_>>().join(", ")));
    stats.distribution.push(("state_ops".into(), format!("insert-new={} overwrite={} remove-hit={} remove-miss={} fork={} snapshots={} eq-true={} eq-false={} max-forks={} max-len={}", cnt.ins_new, cnt.ins_over, cnt.rem_hit, cnt.rem_miss, cnt.forks, cnt.snaps, cnt.eq_true, cnt.eq_false, cnt.max_forks, cnt.max_len)));
    stats.distribution.push(("cluster_shared_chunks(depth=count)".into(), depth_hist.iter().map(|(k, v)| format!("{}={}", k, v)).collect::<Vec<_>>().join(", ")));
    stats.distribution.push(("engine_calls".into(), kinds.iter().map(|(k, v)| format!("{}={}", k, v)).collect::<Vec<_>>().join(", ")));
    stats.distribution.push(("engine".into(), format!("cases={} events={} cases-with-foreign-pending-parent={}", n_engine, events, foreign)));
    CaseSet { header: "From AG Require Import Model.ExecState Oracle.C20.\nOpen Scope N_scope.\n".to_string(), runner: "c20_run".to_string(), defs: it.defs, cases, descr, sigs, stats }
}
