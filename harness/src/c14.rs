//! C14: repair.  Drives the real `Repair` requester (cfg hooks) with generated streams of correct,
//! negative, replayed, unsolicited and hostile responses, and the real `RepairRequestHandler` with
//! every kind of request; renders both for Model/Repair.v.
use std::collections::{HashMap, HashSet};
use std::panic::{AssertUnwindSafe, catch_unwind};
use std::sync::{Arc, Mutex};

use alpenglow::consensus::{Blockstore, BlockstoreImpl, EpochInfo, PoolImpl, SharedBlockstore, SharedPool, ValidatorEpochInfo};
use alpenglow::crypto::merkle::{BlockHash, DoubleMerkleProof, DoubleMerkleTree, MerkleRoot, SliceRoot};
use alpenglow::crypto::signature::SecretKey;
use alpenglow::crypto::Hash;
use alpenglow::network::Network;
use alpenglow::repair::{Repair, RepairRequest, RepairRequestHandler, RepairRequestType, RepairResponse};
use alpenglow::shredder::{ShredIndex, ValidatedShred};
use alpenglow::types::{SliceIndex, Slot};
use alpenglow::{BlockId, ValidatorIndex};
use tokio::sync::{RwLock, mpsc};

use crate::c13::{BuiltSlice, SliceSpec, build_slice, resign_slice, resign_slice_for_slot};
use crate::coqfmt as cf;
use crate::pool::{Keys, r_bid, id_of};
use crate::rng::Rng;
use crate::{CaseSet, Stats, Tier};

fn slice_index(i: u64) -> SliceIndex { wincode::deserialize::<SliceIndex>(&i.to_le_bytes()).expect("slice index") }

/// Recording network: captures everything sent, never receives.
pub struct RecNet<S, R> { pub sent: Mutex<Vec<S>>, _r: std::marker::PhantomData<fn() -> R> }
impl<S, R> Default for RecNet<S, R> { fn default() -> Self { RecNet { sent: Mutex::new(Vec::new()), _r: std::marker::PhantomData } } }
pub struct Net<S, R>(pub Arc<RecNet<S, R>>);
impl<S: Clone + Send + Sync, R: Send + Sync> Network for Net<S, R> {
    type Send = S;
    type Recv = R;
    async fn send(&self, message: &S, _addr: std::net::SocketAddr) -> std::io::Result<()> { self.0.sent.lock().unwrap().push(message.clone()); Ok(()) }
    async fn send_to_many(&self, message: &S, addrs: impl IntoIterator<Item = std::net::SocketAddr> + Send) -> std::io::Result<()> {
        if addrs.into_iter().next().is_some() { self.0.sent.lock().unwrap().push(message.clone()); }
        Ok(())
    }
    async fn receive(&self) -> std::io::Result<R> { std::future::pending().await }
}

struct World { slot: u64, built: Vec<BuiltSlice>, alt: Vec<BuiltSlice>, other_slot: Vec<BuiltSlice>, hash: BlockHash, tree: DoubleMerkleTree, roots: Vec<SliceRoot>, leader: SecretKey }

fn world(rng: &mut Rng) -> World {
    let mut rk = rand::rng();
    let leader = SecretKey::new(&mut rk);
    let slot = rng.range(2, 9);
    let k = rng.range(1, 2);
    let p0 = (slot - 1, 3);
    let specs: Vec<SliceSpec> = (0..k).map(|i| SliceSpec { idx: i, last: i + 1 == k, parent: if i == 0 { Some(p0) } else { None }, txs_ok: true, salt: rng.next() }).collect();
    let built: Vec<BuiltSlice> = specs.iter().map(|s| build_slice(rng, slot, &leader, s)).collect();
    // a Byzantine leader's alternative slices: slice 0 signed a second time with the same content (same
    // slice root) but the opposite last-slice flag, and slice 0 with other content
    let mut alt = Vec::new();
    alt.push(resign_slice(&built[0], slot, &leader, !specs[0].last));
    let salt2 = rng.next();
    alt.push(build_slice(rng, slot, &leader, &SliceSpec { idx: 0, last: k == 1, parent: Some(p0), txs_ok: true, salt: salt2 }));
    let roots: Vec<SliceRoot> = built.iter().map(|b| b.root.clone()).collect();
    let tree = DoubleMerkleTree::new(roots.iter());
    let hash = tree.get_root();
    // the same block content signed by the (Byzantine) leader for the next slot of its window: same roots, same block hash
    let other_slot: Vec<BuiltSlice> = built.iter().map(|b| resign_slice_for_slot(b, slot + 1, &leader)).collect();
    World { slot, built, alt, other_slot, hash, tree, roots, leader }
}

struct Ids { roots: Vec<Vec<u8>> }
impl Ids { fn id(&mut self, r: &SliceRoot) -> u64 { let b = r.as_hash().as_ref().to_vec(); if let Some(i) = self.roots.iter().position(|x| *x == b) { return i as u64 + 1; } self.roots.push(b); self.roots.len() as u64 } }

fn r_req(t: &RepairRequestType, key_of: &dyn Fn(&BlockId) -> u64) -> String {
    match t {
        RepairRequestType::LastSliceRoot(b) => format!("(RLast {})", cf::n(key_of(b))),
        RepairRequestType::SliceRoot(b, s) => format!("(RRoot {} {})", cf::n(key_of(b)), cf::n(wincode::serialize(s).map(|x| u64::from_le_bytes(x[..8].try_into().unwrap())).unwrap_or(0))),
        RepairRequestType::Shred(b, s, i) => format!("(RShred {} {} {})", cf::n(key_of(b)), cf::n(wincode::serialize(s).map(|x| u64::from_le_bytes(x[..8].try_into().unwrap())).unwrap_or(0)), cf::n(i.inner() as u64)),
    }
}

fn shred_bs(ids: &mut Ids, v: &alpenglow::shredder::Shred, size_hint: u64) -> (String, u64, u64, u64) {
    // parse header fields from the wire encoding (fields are crate-private)
    let b = wincode::serialize(v).unwrap();
    let tag = u32::from_le_bytes(b[0..4].try_into().unwrap());
    let slot = u64::from_le_bytes(b[4..12].try_into().unwrap());
    let slice = u64::from_le_bytes(b[12..20].try_into().unwrap());
    let last = b[20] != 0;
    let index = u64::from_le_bytes(b[21..29].try_into().unwrap());
    let size = u64::from_le_bytes(b[29..37].try_into().unwrap());
    let _ = size_hint;
    let rid = ids.id(&v.slice_root());
    (format!("(mkBS {} {} {} {} {} {})", cf::n(slice), cf::b(last), cf::n(rid), cf::n(index), cf::b(tag == 0), cf::n(size)), slot, slice, index)
}

pub fn requester_case(rng: &mut Rng, keys: &mut Keys, cid: u64) -> (String, HashMap<&'static str, u64>, bool, bool, Vec<String>) {
    let w = world(rng);
    let rt = tokio::runtime::Builder::new_current_thread().enable_all().build().expect("rt");
    // epoch of 4 validators whose (ed25519) leader key is the world's leader for every slot
    let mut infos = keys.infos.clone(); infos.truncate(4);
    for v in infos.iter_mut() { v.pubkey = w.leader.to_pk(); }
    let epoch = Arc::new(ValidatorEpochInfo::new(ValidatorIndex::new(1), EpochInfo::new(infos)));
    let (btx, mut brx) = mpsc::channel(4096);
    let bs_impl = BlockstoreImpl::new(btx);
    let blockstore: SharedBlockstore = Arc::new(RwLock::new(bs_impl));
    let (ptx, _prx) = mpsc::channel(4096); let (rtx, _rrx) = mpsc::channel(4096);
    let pool: SharedPool = Arc::new(RwLock::new(PoolImpl::new(epoch.clone(), ptx, rtx)));
    let net: Arc<RecNet<RepairRequest, RepairResponse>> = Arc::new(RecNet::default());
    let mut repair = Repair::new(blockstore.clone(), pool, Net(net.clone()), epoch.clone());
    let bid: BlockId = (Slot::new(w.slot), w.hash.clone());
    let key_of = |b: &BlockId| -> u64 { if b.1 == w.hash && b.0.inner() == w.slot { 1 } else { 9 } };
    let mut ids = Ids { roots: Vec::new() };
    let mut content = Vec::new();
    for b in w.built.iter().chain(w.alt.iter()) {
        let rid = ids.id(&b.root);
        let e = format!("({}, (DecOk {} {}))", cf::n(rid), cf::opt(b.spec.parent.map(r_bid)), cf::b(b.spec.txs_ok));
        if !content.contains(&e) { content.push(e); }
    }
    let expected = cf::list(&w.roots.iter().map(|r| cf::n(ids.id(r))).collect::<Vec<_>>());
    let mut steps: Vec<String> = Vec::new();
    let mut kinds: HashMap<&'static str, u64> = Default::default();
    let mut sig_kinds: Vec<String> = Vec::new();
    let mut panicked = false;
    let mut history: Vec<RepairResponse> = Vec::new();
    let mut attacked: HashSet<String> = HashSet::new();
    let observe = |repair: &Repair<Net<RepairRequest, RepairResponse>>, net: &Arc<RecNet<RepairRequest, RepairResponse>>, blockstore: &SharedBlockstore, rt: &tokio::runtime::Runtime, brx: &mut mpsc::Receiver<alpenglow::consensus::BlockstoreEvent>| -> (String, String, bool) {
        let sent: Vec<RepairRequest> = std::mem::take(&mut *net.sent.lock().unwrap());
        let sent_txt = cf::list(&sent.iter().map(|r| r_req(r.verif_req_type(), &key_of)).collect::<Vec<_>>());
        let out: Vec<String> = repair.verif_outstanding().iter().map(|t| r_req(t, &key_of)).collect();
        while brx.try_recv().is_ok() {}
        let have = rt.block_on(async { blockstore.read().await.get_block(&bid).is_some() });
        (sent_txt, cf::list(&out), have)
    };
    // a quarter of the cases: a few shreds of a SIBLING block of the same slot (the Byzantine leader's other slice 0)
    // reached the node by dissemination before the repair starts; they belong to another block and must not keep
    // correctly answered repair requests for this one from completing
    if rng.chance(1, 4) {
        let take = rng.range(1, 5) as usize;
        let start = rng.below(60) as usize;
        rt.block_on(async {
            let mut g = blockstore.write().await;
            for k in 0..take { let _ = g.add_shred_from_dissemination(w.alt[1].shreds[start + k].clone()).await; }
        });
        while brx.try_recv().is_ok() {}
        *kinds.entry("sibling-disseminated-before-repair").or_default() += 1;
    }
    // start
    { let r = &mut repair; let rt2 = &rt; let b2 = bid.clone(); let res = catch_unwind(AssertUnwindSafe(|| rt2.block_on(r.repair_block(b2)))); panicked |= res.is_err(); }
    let (s0, o0, h0) = observe(&repair, &net, &blockstore, &rt, &mut brx);
    steps.push(format!("(mkRStep (IStart 1%N) {} {} {} {})", s0, o0, cf::b(h0), cf::b(panicked)));
    sig_kinds.push("start".into());
    let attack = rng.chance(1, 4);
    let mut restarts = 0u32;
    let budget = 60 + 100 * w.built.len();
    let mut n = 0;
    while !panicked && n < budget {
        n += 1;
        // now and then the block is handed to repair AGAIN while its repair is in progress
        if restarts < 2 && rng.chance(1, 25) {
            restarts += 1;
            { let r = &mut repair; let rt2 = &rt; let b2 = bid.clone(); let res = catch_unwind(AssertUnwindSafe(|| rt2.block_on(r.repair_block(b2)))); panicked |= res.is_err(); }
            let (s1, o1, h1) = if panicked { ("[]".to_string(), "[]".to_string(), false) } else { observe(&repair, &net, &blockstore, &rt, &mut brx) };
            steps.push(format!("(mkRStep (IStart 1%N) {} {} {} {})", s1, o1, cf::b(h1), cf::b(panicked)));
            sig_kinds.push(format!("restart{}", if panicked { ":panic" } else { "" }));
            *kinds.entry("restart").or_default() += 1;
            continue;
        }
        let mut outstanding = repair.verif_outstanding();
        outstanding.sort_by_key(|t| r_req(t, &key_of));
        if outstanding.is_empty() { break; }
        let req = outstanding[rng.below(outstanding.len() as u64) as usize].clone();
        // choose what arrives for this request
        let is_s0 = matches!(&req, RepairRequestType::Shred(_, s, _) if wincode::serialize(s).map(|x| x[..8] == [0u8; 8]).unwrap_or(false));
        let mode = if attack && is_s0 && !attacked.contains(&r_req(&req, &key_of)) { attacked.insert(r_req(&req, &key_of)); "byzantine-slice" } else { match rng.below(21) { 0..=8 => "honest", 20 => "known-root-claimed-as-last", 9 => "cross-slot-shred", 10 => "tag-flipped", 11 => "nack", 12 => "bad-proof", 13 => "wrong-variant", 14 => "wrong-root", 15 => "replay", 16 => "unsolicited", 17 => "wrong-shred", 18 => "byzantine-slice", 19 => "flipped-last-flag", _ => "honest" } };
        let honest = |req: &RepairRequestType| -> RepairResponse {
            match req {
                RepairRequestType::LastSliceRoot(_) => { let l = w.built.len() - 1; RepairResponse::LastSliceRoot(req.clone(), slice_index(l as u64), w.roots[l].clone(), w.tree.create_proof(l)) }
                RepairRequestType::SliceRoot(_, s) => { let i = wincode::serialize(s).map(|x| u64::from_le_bytes(x[..8].try_into().unwrap())).unwrap() as usize; RepairResponse::SliceRoot(req.clone(), w.roots[i.min(w.roots.len() - 1)].clone(), w.tree.create_proof(i.min(w.roots.len() - 1))) }
                RepairRequestType::Shred(_, s, i) => { let si = wincode::serialize(s).map(|x| u64::from_le_bytes(x[..8].try_into().unwrap())).unwrap() as usize; RepairResponse::Shred(req.clone(), w.built[si.min(w.built.len() - 1)].shreds[i.inner()].as_shred().clone()) }
            }
        };
        let resp: RepairResponse = match mode {
            "nack" => RepairResponse::Nack(req.clone()),
            "bad-proof" => match honest(&req) {
                RepairResponse::LastSliceRoot(r, l, root, p) => { let mut v: Vec<Hash> = p.as_ref().to_vec(); if v.is_empty() { v.push(Hash::random_for_test()); } else { v[0] = Hash::random_for_test(); } RepairResponse::LastSliceRoot(r, l, root, DoubleMerkleProof::from(v)) }
                RepairResponse::SliceRoot(r, root, p) => { let mut v: Vec<Hash> = p.as_ref().to_vec(); v.push(Hash::random_for_test()); RepairResponse::SliceRoot(r, root, DoubleMerkleProof::from(v)) }
                x => x,
            },
            "known-root-claimed-as-last" => match &req {
                // the true root of a NON-last slice with its (valid) membership proof, offered as the last slice
                RepairRequestType::LastSliceRoot(_) if w.built.len() > 1 => RepairResponse::LastSliceRoot(req.clone(), slice_index(0), w.roots[0].clone(), w.tree.create_proof(0)),
                _ => honest(&req),
            },
            "wrong-variant" => match &req {
                RepairRequestType::LastSliceRoot(_) => RepairResponse::SliceRoot(req.clone(), w.roots[0].clone(), w.tree.create_proof(0)),
                RepairRequestType::SliceRoot(_, _) => RepairResponse::LastSliceRoot(req.clone(), slice_index((w.built.len() - 1) as u64), w.roots[w.built.len() - 1].clone(), w.tree.create_proof(w.built.len() - 1)),
                RepairRequestType::Shred(_, _, _) => RepairResponse::SliceRoot(req.clone(), w.roots[0].clone(), w.tree.create_proof(0)),
            },
            "wrong-root" => match honest(&req) {
                RepairResponse::LastSliceRoot(r, l, _root, p) => RepairResponse::LastSliceRoot(r, l, w.alt[1].root.clone(), p),
                RepairResponse::SliceRoot(r, _root, p) => RepairResponse::SliceRoot(r, w.alt[1].root.clone(), p),
                x => x,
            },
            "replay" => if history.is_empty() { honest(&req) } else { history[rng.below(history.len() as u64) as usize].clone() },
            "unsolicited" => { let other = RepairRequestType::Shred(bid.clone(), slice_index(7), ShredIndex::new(3).unwrap()); RepairResponse::Nack(other) }
            "cross-slot-shred" => match &req {
                // the shred at exactly the requested (slice, index), validly signed by the leader - for the NEXT slot
                RepairRequestType::Shred(_, s, i) => { let si = wincode::serialize(s).map(|x| u64::from_le_bytes(x[..8].try_into().unwrap())).unwrap() as usize; RepairResponse::Shred(req.clone(), w.other_slot[si.min(w.other_slot.len() - 1)].shreds[i.inner()].as_shred().clone()) }
                _ => honest(&req),
            },
            "wrong-shred" => match &req {
                RepairRequestType::Shred(_, s, i) => { let si = wincode::serialize(s).map(|x| u64::from_le_bytes(x[..8].try_into().unwrap())).unwrap() as usize; let j = (i.inner() + 1 + rng.below(62) as usize) % 64; RepairResponse::Shred(req.clone(), w.built[si.min(w.built.len() - 1)].shreds[j].as_shred().clone()) }
                _ => honest(&req),
            },
            "flipped-last-flag" => match honest(&req) {
                RepairResponse::Shred(r, sh) => { let mut b = wincode::serialize(&sh).unwrap(); b[20] ^= 1; match wincode::deserialize::<alpenglow::shredder::Shred>(&b) { Ok(x) => RepairResponse::Shred(r, x), Err(_) => RepairResponse::Shred(r, sh) } }
                x => x,
            },
            // the leader's validly signed shred with its (unsigned) data / coding type tag flipped on the wire:
            // passes ValidatedShred::try_new, must be ignored by the requester (the request stays outstanding)
            "tag-flipped" => match honest(&req) {
                RepairResponse::Shred(r, sh) => { let mut b = wincode::serialize(&sh).unwrap(); let t = u32::from_le_bytes(b[0..4].try_into().unwrap()); b[0..4].copy_from_slice(&(if t == 0 { 1u32 } else { 0u32 }).to_le_bytes()); match wincode::deserialize::<alpenglow::shredder::Shred>(&b) { Ok(x) => RepairResponse::Shred(r, x), Err(_) => RepairResponse::Shred(r, sh) } }
                x => x,
            },
            "byzantine-slice" => match &req {
                RepairRequestType::Shred(_, _, i) => { let a = if attack || rng.chance(1, 2) { 0 } else { 1 }; RepairResponse::Shred(req.clone(), w.alt[a].shreds[i.inner()].as_shred().clone()) }
                _ => honest(&req),
            },
            _ => honest(&req),
        };
        *kinds.entry(mode).or_default() += 1;
        history.push(resp.clone());
        // render the response with ground-truth validity bits
        let txt = match &resp {
            RepairResponse::Nack(t) => format!("(PNack {})", r_req(t, &key_of)),
            RepairResponse::LastSliceRoot(t, l, root, p) => { let li = wincode::serialize(l).map(|x| u64::from_le_bytes(x[..8].try_into().unwrap())).unwrap(); let ok = DoubleMerkleTree::check_proof_last(root, li as usize, &w.hash, p); format!("(PLast {} {} {} {})", r_req(t, &key_of), cf::n(li), cf::n(ids.id(root)), cf::b(ok)) }
            RepairResponse::SliceRoot(t, root, p) => { let si = match t { RepairRequestType::SliceRoot(_, s) => wincode::serialize(s).map(|x| u64::from_le_bytes(x[..8].try_into().unwrap())).unwrap(), _ => 0 }; let ok = DoubleMerkleTree::check_proof(root, si as usize, &w.hash, p); format!("(PRoot {} {} {})", r_req(t, &key_of), cf::n(ids.id(root)), cf::b(ok)) }
            RepairResponse::Shred(t, sh) => { let (bs, sslot, _, _) = shred_bs(&mut ids, sh, 0); let sig_ok = ValidatedShred::try_new(sh.clone(), None, &w.leader.to_pk()).is_ok(); format!("(PShred {} {} {} {})", r_req(t, &key_of), cf::b(sslot == w.slot), bs, cf::b(sig_ok)) }
        };
        let r = &mut repair; let rt2 = &rt;
        let res = catch_unwind(AssertUnwindSafe(|| rt2.block_on(r.verif_handle_response(resp))));
        if res.is_err() { panicked = true; }
        let (s1, o1, h1) = if panicked { ("[]".to_string(), "[]".to_string(), false) } else { observe(&repair, &net, &blockstore, &rt, &mut brx) };
        steps.push(format!("(mkRStep (IResp {}) {} {} {} {})", txt, s1, o1, cf::b(h1), cf::b(panicked)));
        sig_kinds.push(format!("response-{}{}", mode, if panicked { ":panic" } else { "" }));
    }
    let done = rt.block_on(async { blockstore.read().await.get_block(&bid).is_some() });
    let txt = format!("(RCase {} {} {} {} {})", cf::n(cid), cf::n(w.slot), cf::list(&content), expected, cf::list(&steps));
    (txt, kinds, panicked, done, sig_kinds)
}

pub fn responder_case(rng: &mut Rng, keys: &mut Keys, cid: u64) -> (String, u64, bool) {
    let w = world(rng);
    let rt = tokio::runtime::Builder::new_current_thread().enable_all().build().expect("rt");
    let mut infos = keys.infos.clone(); infos.truncate(4);
    for v in infos.iter_mut() { v.pubkey = w.leader.to_pk(); }
    let epoch = Arc::new(ValidatorEpochInfo::new(ValidatorIndex::new(1), EpochInfo::new(infos)));
    let (btx, _brx) = mpsc::channel(4096);
    let mut bs_impl = BlockstoreImpl::new(btx);
    // the responder holds the block completely (or only its first slice partially)
    let partial = rng.chance(1, 4);
    // sometimes an unfinished repair of the very same block precedes its arrival through dissemination
    let pre_repair: usize = if !partial && rng.chance(1, 3) { rng.range(1, 12) as usize } else { 0 };
    rt.block_on(async {
        for k in 0..pre_repair { let _ = bs_impl.add_shred_from_repair(w.hash.clone(), w.built[0].shreds[k].clone()).await; }
        for (si, b) in w.built.iter().enumerate() {
            let take = if partial { if si == 0 { 20 } else { 0 } } else { 64 };
            for k in 0..take { let _ = bs_impl.add_shred_from_dissemination(b.shreds[k].clone()).await; }
        }
    });
    let blockstore: SharedBlockstore = Arc::new(RwLock::new(bs_impl));
    let net: Arc<RecNet<RepairResponse, RepairRequest>> = Arc::new(RecNet::default());
    let handler = RepairRequestHandler::new(epoch.clone(), blockstore.clone(), Net(net.clone()));
    let bid: BlockId = (Slot::new(w.slot), w.hash.clone());
    let other: BlockId = (Slot::new(w.slot), Hash::random_for_test().into());
    let mut ids = Ids { roots: Vec::new() };
    for b in &w.built { ids.id(&b.root); }
    let mut qs = Vec::new();
    let mut problems = 0u64;
    let mut panicked = false;
    let nslices = w.built.len() as u64;
    let mut reqs: Vec<(RepairRequestType, u64)> = Vec::new();
    for b in [(&bid, 1u64), (&other, 9u64)] {
        reqs.push((RepairRequestType::LastSliceRoot(b.0.clone()), b.1));
        for s in [0u64, 1, nslices.saturating_sub(1), nslices, nslices + 1, 7, 1023] {
            reqs.push((RepairRequestType::SliceRoot(b.0.clone(), slice_index(s)), b.1));
            for i in [0usize, 31, 32, 63, rng.below(64) as usize] { reqs.push((RepairRequestType::Shred(b.0.clone(), slice_index(s), ShredIndex::new(i).unwrap()), b.1)); }
        }
    }
    for (t, key) in reqs {
        let sender = if rng.chance(1, 12) { ValidatorIndex::new(4 + rng.below(5)) } else { ValidatorIndex::new(rng.below(4)) };
        let known = sender.inner() < 4;
        let req = RepairRequest::verif_new(sender, t.clone());
        let h = &handler; let rt2 = &rt;
        let res = catch_unwind(AssertUnwindSafe(|| rt2.block_on(h.verif_answer_request(req))));
        if res.is_err() { panicked = true; }
        let sent: Vec<RepairResponse> = std::mem::take(&mut *net.sent.lock().unwrap());
        let key_of = |b: &BlockId| -> u64 { if b.1 == w.hash { 1 } else { 9 } };
        let _ = key;
        let ans = match sent.first() {
            None => "ANone".to_string(),
            Some(RepairResponse::Nack(_)) => "(ASome ANack)".to_string(),
            Some(RepairResponse::LastSliceRoot(_, l, root, p)) => { let li = wincode::serialize(l).map(|x| u64::from_le_bytes(x[..8].try_into().unwrap())).unwrap(); if !DoubleMerkleTree::check_proof_last(root, li as usize, &w.hash, p) { problems += 1; } format!("(ASome (ALast {} {}))", cf::n(li), cf::n(ids.id(root))) }
            Some(RepairResponse::SliceRoot(rt3, root, p)) => { let si = match rt3 { RepairRequestType::SliceRoot(_, s) => wincode::serialize(s).map(|x| u64::from_le_bytes(x[..8].try_into().unwrap())).unwrap(), _ => 0 }; if !DoubleMerkleTree::check_proof(root, si as usize, &w.hash, p) { problems += 1; } format!("(ASome (ARoot {}))", cf::n(ids.id(root))) }
            Some(RepairResponse::Shred(_, sh)) => { if ValidatedShred::try_new(sh.clone(), None, &w.leader.to_pk()).is_err() { problems += 1; } let (bs, _, _, _) = shred_bs(&mut ids, sh, 0); format!("(ASome (AShred {}))", bs) }
        };
        qs.push(format!("(mkQ {} {} {} {})", r_req(&t, &key_of), cf::b(known), ans, cf::b(res.is_err())));
        if panicked { break; }
    }
    // what the responder holds, as model operations
    let mut held_repair = Vec::new();
    for k in 0..pre_repair { let (bs, _, _, _) = shred_bs(&mut ids, w.built[0].shreds[k].as_shred(), 0); held_repair.push(bs); }
    let mut held = Vec::new();
    for (si, b) in w.built.iter().enumerate() {
        let take = if partial { if si == 0 { 20 } else { 0 } } else { 64 };
        for k in 0..take { let (bs, _, _, _) = shred_bs(&mut ids, b.shreds[k].as_shred(), 0); held.push(bs); }
    }
    let mut content = Vec::new();
    for b in &w.built { content.push(format!("({}, (DecOk {} {}))", cf::n(ids.id(&b.root)), cf::opt(b.spec.parent.map(r_bid)), cf::b(b.spec.txs_ok))); }
    let expected = cf::list(&w.roots.iter().map(|r| cf::n(ids.id(r))).collect::<Vec<_>>());
    let _ = id_of;
    (format!("(QCase {} {} {} {} {} {} {})", cf::n(cid), cf::n(w.slot), cf::list(&content), expected, cf::list(&held_repair), cf::list(&held), cf::list(&qs)), problems, panicked)
}

pub fn gen_c14(seed: u64, tier: Tier) -> CaseSet {
    let mut rng = Rng::new(seed ^ 0xC14);
    let (nreq, nresp) = match tier { Tier::Quick => (30, 30), Tier::Thorough => (600, 400) };
    let (mut cases, mut descr, mut sigs) = (Vec::new(), Vec::new(), Vec::new());
    let mut stats = Stats::default();
    let mut seen = HashSet::new();
    let mut keys = Keys::new(4);
    let mut kinds_total: HashMap<&'static str, u64> = Default::default();
    let (mut completed, mut panics) = (0u64, 0u64);
    let mut cid = 0u64;
    for _ in 0..nreq {
        let (txt, kinds, panicked, done, sk) = requester_case(&mut rng, &mut keys, cid);
        for (k, v) in kinds { *kinds_total.entry(k).or_default() += v; }
        if done { completed += 1; } if panicked { panics += 1; }
        for (i, s) in sk.iter().enumerate() { sigs.push((cid, i as u64, format!("repair-requester:{}", s))); }
        stats.evaluations += 1;
        if seen.insert(txt.clone()) { stats.distinct_nontrivial += 1; }
        if stats.samples.is_empty() { stats.samples.push(txt.chars().take(1500).collect()); }
        descr.push(format!("case {}: requester, {} steps, block stored at the end: {}, panicked: {}", cid, sk.len(), done, panicked));
        cases.push(txt); cid += 1;
    }
    let mut bad_answers = 0u64;
    for _ in 0..nresp {
        let (txt, problems, panicked) = responder_case(&mut rng, &mut keys, cid);
        bad_answers += problems; if panicked { panics += 1; }
        if problems > 0 { stats.harness_findings.push((cid, "repair-responder:positive-answer-does-not-verify".to_string())); }
        sigs.push((cid, 0, format!("repair-responder{}", if panicked { ":panic" } else { "" })));
        stats.evaluations += 1;
        if seen.insert(txt.clone()) { stats.distinct_nontrivial += 1; }
        descr.push(format!("case {}: responder, answers failing verification: {}, panicked: {}", cid, problems, panicked));
        cases.push(txt); cid += 1;
    }
    stats.rule = "requester: a 1-2 slice block of a fresh leader is repaired through the real Repair state machine (in a quarter of the cases after a few shreds of a sibling block of the same slot arrived by dissemination); for a randomly chosen outstanding request the next arriving response is correct (50%), the correct shred with its unsigned data / coding type tag flipped, a NACK, has a corrupted proof, the wrong variant, another (validly signed) slice's root, is a replay of an earlier response, unsolicited, a shred with another index, the right shred signed for another slot of the leader's window, the true root of a non-last slice offered as last slice (also after the block was handed to repair a second time), or a shred of a conflicting slice the (Byzantine) leader also signed; hostile responses routinely arrive before the correct one. responder: every request kind for existing / out-of-range slice and shred indices, a block it holds completely (sometimes with an unfinished repair of the same block filed earlier) or only partially, an unknown block, known and unknown senders; every positive answer is verified with the real check_proof / check_proof_last / ValidatedShred::try_new. non-trivial = distinct trace".into();
    let mut v: Vec<_> = kinds_total.into_iter().collect(); v.sort();
    stats.distribution.push(("response_kinds".into(), v.iter().map(|(k, c)| format!("{}={}", k, c)).collect::<Vec<_>>().join(", ")));
    stats.distribution.push(("requester_cases_completed".into(), format!("{} of {}", completed, nreq)));
    stats.distribution.push(("responder_answers_failing_verification".into(), format!("{}", bad_answers)));
    stats.distribution.push(("panics".into(), format!("{}", panics)));
    CaseSet { header: "From AG Require Import Model.Pool Model.Blockstore Model.Repair Oracle.C14.\n".to_string(), runner: "c14_run".to_string(), defs: Vec::new(), cases, descr, sigs, stats }
}
