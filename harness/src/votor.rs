//! C05 (and the Votor part of C18): drives the real `Votor` through its handlers (cfg hooks) with
//! generated event sequences; broadcasts are captured by a recording `All2All`.
use std::collections::HashSet;
use std::panic::{AssertUnwindSafe, catch_unwind};
use std::sync::{Arc, Mutex};

use alpenglow::All2All;
use alpenglow::consensus::{BlockInfo, BlockstoreEvent, ConsensusMessage, PoolEvent, Votor};
use alpenglow::types::Slot;
use alpenglow::{BlockId, ValidatorIndex};
use tokio::sync::mpsc;

use crate::coqfmt as cf;
use crate::pool::{self, CK, Keys, VK, hash_of, r_bid, r_cert, r_vote};
use crate::poolgen::{KeyRing, stake_family};
use crate::rng::Rng;
use crate::{CaseSet, Stats, Tier};

#[derive(Default)]
pub struct Recorder {
    pub log: Mutex<Vec<ConsensusMessage>>,
}

impl All2All for Recorder {
    async fn broadcast(&self, msg: &ConsensusMessage) -> std::io::Result<()> {
        self.log.lock().unwrap().push(msg.clone());
        Ok(())
    }
    async fn receive(&self) -> std::io::Result<ConsensusMessage> {
        std::future::pending().await
    }
}

#[derive(Clone, Debug)]
pub enum PE {
    ParentReady(u64, (u64, u64)),
    SafeToNotar((u64, u64)),
    SafeToSkip(u64),
    Cert { slot: u64, kind: CK, hash: u64 },
    Standstill(u64, Vec<(u64, CK, u64)>, Vec<(u64, VK, u64)>),
}

#[derive(Clone, Debug)]
pub enum VIn {
    Pool(PE),
    FirstShred(u64),
    InvalidBlock(u64),
    Block(u64, u64, (u64, u64)),
    Timeout(u64),
    TimeoutCrashed(u64),
}

fn bid(b: (u64, u64)) -> BlockId {
    (Slot::new(b.0), hash_of(b.1))
}

fn full_cert(keys: &mut Keys, stakes: &[u64], slot: u64, kind: CK, hash: u64) -> alpenglow::consensus::Cert {
    let infos = keys.epoch(stakes, 0).epoch_info().validators().to_vec();
    let all: Vec<u64> = (0..stakes.len() as u64).collect();
    keys.cert(&infos, slot, kind, hash, &all, &[]).or_else(|| keys.cert(&infos, slot, kind, hash, &[], &all)).expect("cert")
}

pub fn run_case(keys: &mut Keys, id: u64, stakes: &[u64], own: u64, ins: &[VIn]) -> (String, usize, bool, Vec<String>) {
    let rt = tokio::runtime::Builder::new_current_thread().enable_all().build().expect("rt");
    let rec = Arc::new(Recorder::default());
    let (_ptx, prx) = mpsc::channel::<PoolEvent>(16);
    let (_btx, brx) = mpsc::channel::<BlockstoreEvent>(16);
    let sk = keys.sks[own as usize].clone();
    let mut votor = {
        let _g = rt.enter();
        Votor::new(ValidatorIndex::new(own), sk, prx, brx, rec.clone())
    };
    let init_t: Vec<String> = votor.verif_take_timeouts_set().iter().map(|s| cf::n(s.inner())).collect();
    let mut steps = Vec::new();
    let mut nvotes = 0usize;
    let mut panicked_any = false;
    let mut kinds = Vec::new();
    for i in ins {
        let (txt, fut_res) = match i {
            VIn::Pool(pe) => {
                let (t, ev) = match pe {
                    PE::ParentReady(s, p) => (format!("(VPool (EParentReady {} {}))", cf::n(*s), r_bid(*p)), PoolEvent::ParentReady { slot: Slot::new(*s), parent: bid(*p) }),
                    PE::SafeToNotar(b) => (format!("(VPool (ESafeToNotar {}))", r_bid(*b)), PoolEvent::SafeToNotar(bid(*b))),
                    PE::SafeToSkip(s) => (format!("(VPool (ESafeToSkip {}))", cf::n(*s)), PoolEvent::SafeToSkip(Slot::new(*s))),
                    PE::Cert { slot, kind, hash } => { let c = full_cert(keys, stakes, *slot, *kind, *hash); (format!("(VPool (ECertCreated {}))", r_cert(&c)), PoolEvent::CertCreated(c)) }
                    PE::Standstill(s, cs, vs) => {
                        let certs: Vec<_> = cs.iter().map(|(sl, k, h)| full_cert(keys, stakes, *sl, *k, *h)).collect();
                        let votes: Vec<_> = vs.iter().map(|(sl, k, h)| keys.vote(*sl, *k, *h, own)).collect();
                        (format!("(VPool (EStandstill {} {} {}))", cf::n(*s), cf::list(&certs.iter().map(r_cert).collect::<Vec<_>>()), cf::list(&votes.iter().map(r_vote).collect::<Vec<_>>())),
                         PoolEvent::Standstill(Slot::new(*s), certs, votes))
                    }
                };
                kinds.push(match pe { PE::ParentReady(..) => "pool-parentready", PE::SafeToNotar(_) | PE::SafeToSkip(_) => "pool-safeto", PE::Cert { .. } => "pool-cert", PE::Standstill(..) => "pool-standstill" });
                let v = &mut votor; let rt2 = &rt;
                (t, catch_unwind(AssertUnwindSafe(|| rt2.block_on(v.verif_pool_event(ev)))))
            }
            VIn::FirstShred(s) => { kinds.push("shred"); let v = &mut votor; let rt2 = &rt; (format!("(VFirstShred {})", cf::n(*s)), catch_unwind(AssertUnwindSafe(|| rt2.block_on(v.verif_blockstore_event(BlockstoreEvent::FirstShred(Slot::new(*s))))))) }
            VIn::InvalidBlock(s) => { kinds.push("invalid"); let v = &mut votor; let rt2 = &rt; (format!("(VInvalidBlock {})", cf::n(*s)), catch_unwind(AssertUnwindSafe(|| rt2.block_on(v.verif_blockstore_event(BlockstoreEvent::InvalidBlock(Slot::new(*s))))))) }
            VIn::Block(s, h, p) => {
                kinds.push("block");
                let ev = BlockstoreEvent::Block { slot: Slot::new(*s), block_info: BlockInfo::verif_new(hash_of(*h), bid(*p)) };
                let v = &mut votor; let rt2 = &rt;
                (format!("(VBlock {} {} {})", cf::n(*s), cf::n(*h), r_bid(*p)), catch_unwind(AssertUnwindSafe(|| rt2.block_on(v.verif_blockstore_event(ev)))))
            }
            VIn::Timeout(s) => { kinds.push("timeout"); let v = &mut votor; let rt2 = &rt; (format!("(VTimeout {})", cf::n(*s)), catch_unwind(AssertUnwindSafe(|| rt2.block_on(v.verif_timeout(Slot::new(*s), false))))) }
            VIn::TimeoutCrashed(s) => { kinds.push("timeout-crashed"); let v = &mut votor; let rt2 = &rt; (format!("(VTimeoutCrashed {})", cf::n(*s)), catch_unwind(AssertUnwindSafe(|| rt2.block_on(v.verif_timeout(Slot::new(*s), true))))) }
        };
        let panicked = fut_res.is_err();
        let msgs: Vec<ConsensusMessage> = std::mem::take(&mut *rec.log.lock().unwrap());
        let outs: Vec<String> = msgs.iter().map(|m| match m {
            ConsensusMessage::Vote(v) => { nvotes += 1; format!("(VBVote {})", r_vote(v)) }
            ConsensusMessage::Cert(c) => format!("(VBCert {})", r_cert(c)),
        }).collect();
        let tms: Vec<String> = if panicked { vec![] } else { votor.verif_take_timeouts_set().iter().map(|s| cf::n(s.inner())).collect() };
        let retained: Vec<String> = if panicked { vec![] } else { votor.verif_retained_slots().iter().map(|s| cf::n(s.inner())).collect() };
        steps.push(format!("(mkVStep {} {} {} {} {})", txt, cf::list(&outs), cf::list(&tms), cf::list(&retained), cf::b(panicked)));
        if panicked { panicked_any = true; break; }
    }
    let st: Vec<String> = stakes.iter().map(|s| cf::n(*s)).collect();
    (format!("(VCase {} {} {} {} {})", cf::n(id), cf::list(&st), cf::n(own), cf::list(&init_t), cf::list(&steps)), nvotes, panicked_any, kinds.iter().map(|s| s.to_string()).collect())
}

/// Event sequences over 2-4 windows.  A loosely consistent "story" (leader blocks per slot,
/// parent-ready announcements, certificates, timeouts) is generated and then perturbed:
/// several blocks per slot, children before parents, events for old / pruned / future slots,
/// SafeTo* events both plausible (after an own vote) and hostile.
pub fn scenario(rng: &mut Rng) -> Vec<VIn> {
    let spw = pool::SLOTS_PER_WINDOW;
    let nslots = rng.range(4, 14);
    let mut groups: Vec<Vec<VIn>> = Vec::new();
    let mut last_block: (u64, u64) = (0, 0);
    for s in 1..=nslots {
        let h = s * 10 + 1;
        let fate = rng.below(10);
        if s % spw == 0 || s == 1 {
            // a ready parent for the window (the last block, or a stale one)
            let w = (s / spw) * spw;
            if rng.chance(5, 6) { groups.push(vec![VIn::Pool(PE::ParentReady(w, last_block))]); }
            if rng.chance(1, 6) { groups.push(vec![VIn::Pool(PE::ParentReady(w, (last_block.0.saturating_sub(1), 1)))]); }
        }
        if fate < 7 {
            let parent = if rng.chance(7, 8) { last_block } else { (s - 1, (s - 1) * 10 + 2) };
            let mut g = vec![];
            if rng.chance(4, 5) { g.push(VIn::FirstShred(s)); }
            g.push(VIn::Block(s, h, parent));
            if rng.chance(1, 6) { g.push(VIn::Block(s, h + 1, parent)); }
            groups.push(g);
            if rng.chance(3, 4) { groups.push(vec![VIn::Pool(PE::Cert { slot: s, kind: CK::Notar, hash: if rng.chance(9, 10) { h } else { h + 1 } })]); }
            // a notar-fallback certificate (often WITHOUT a notarization certificate: it must not count as one)
            if rng.chance(1, 4) { groups.push(vec![VIn::Pool(PE::Cert { slot: s, kind: CK::NotarFb, hash: if rng.chance(3, 4) { h } else { h + 1 } })]); }
            if rng.chance(1, 3) { groups.push(vec![VIn::Pool(PE::Cert { slot: s, kind: if rng.chance(1, 2) { CK::Final } else { CK::FastFinal }, hash: h })]); }
            if rng.chance(1, 6) { groups.push(vec![VIn::Pool(PE::SafeToNotar((s, h + 1)))]); }
            if rng.chance(1, 8) { groups.push(vec![VIn::Pool(PE::SafeToSkip(s))]); }
            last_block = (s, h);
        } else if fate < 9 {
            groups.push(vec![if rng.chance(1, 2) { VIn::Timeout(s) } else { VIn::TimeoutCrashed(s) }]);
            if rng.chance(1, 2) { groups.push(vec![VIn::Pool(PE::Cert { slot: s, kind: CK::Skip, hash: 0 })]); }
            if rng.chance(1, 4) { groups.push(vec![VIn::Pool(PE::SafeToNotar((s, h)))]); }
        } else {
            groups.push(vec![VIn::InvalidBlock(s)]);
        }
        if rng.chance(1, 5) { groups.push(vec![VIn::Timeout(s)]); }
    }
    // standstill bundles with arbitrary contents (must be forwarded verbatim, whatever the pruning state)
    for _ in 0..rng.range(0, 2) {
        let s = rng.range(1, nslots);
        let cs = (0..rng.range(0, 3)).map(|_| (rng.range(1, nslots), *rng.pick(&[CK::Notar, CK::Skip, CK::Final, CK::FastFinal, CK::NotarFb]), rng.range(1, 3))).collect();
        let vs = (0..rng.range(0, 3)).map(|_| (rng.range(1, nslots), *rng.pick(&[VK::Notar, VK::Skip, VK::Final, VK::SkipFb, VK::NotarFb]), rng.range(1, 3))).collect();
        groups.push(vec![VIn::Pool(PE::Standstill(s, cs, vs))]);
    }
    // mostly in order, with local disorder (swap neighbours / move a group far away)
    let n = groups.len();
    for _ in 0..rng.range(0, n as u64 / 2) {
        let i = rng.below(n as u64) as usize;
        let j = if rng.chance(2, 3) { (i + 1 + rng.below(3) as usize).min(n - 1) } else { rng.below(n as u64) as usize };
        groups.swap(i, j);
    }
    groups.into_iter().flatten().collect()
}

pub fn gen_c05(seed: u64, tier: Tier) -> CaseSet {
    let mut rng = Rng::new(seed ^ 0xC05);
    let mut ring = KeyRing::new();
    let ncases = match tier { Tier::Quick => 800, Tier::Thorough => 20000 };
    let (mut cases, mut descr, mut sigs) = (Vec::new(), Vec::new(), Vec::new());
    let mut stats = Stats::default();
    let mut seen = HashSet::new();
    let mut kind_count: std::collections::HashMap<String, u64> = Default::default();
    let mut total_votes = 0usize;
    let mut panics = 0u64;
    for cid in 0..ncases as u64 {
        let (mut stakes, _fam) = stake_family(&mut rng);
        stakes.truncate(6);
        let own = rng.below(stakes.len() as u64);
        let ins = scenario(&mut rng);
        let keys = ring.get(stakes.len());
        let (txt, nvotes, panicked, kinds) = run_case(keys, cid, &stakes, own, &ins);
        for (k, kd) in kinds.iter().enumerate() { sigs.push((cid, k as u64, format!("votor:{}{}", kd, if panicked && k + 1 == kinds.len() { ":panic" } else { "" }))); }
        for k in kinds { *kind_count.entry(k).or_default() += 1; }
        total_votes += nvotes;
        if panicked { panics += 1; }
        stats.evaluations += 1;
        if nvotes >= 2 && seen.insert(txt.clone()) { stats.distinct_nontrivial += 1; }
        if stats.samples.len() < 1 && nvotes >= 4 { stats.samples.push(txt.chars().take(2000).collect()); }
        descr.push(format!("case {}: {} validators, own {}, {} events, {} own votes", cid, stakes.len(), own, ins.len(), nvotes));
        cases.push(txt);
    }
    stats.rule = "Votor event sequences over 4-14 slots: per slot a leader block (sometimes two, sometimes with a foreign parent), first-shred, notar / notar-fallback / final / fast-final / skip certificates (sometimes for another hash, notar-fallback often without a notarization certificate), timeouts (regular and crashed-leader), invalid-block, parent-ready announcements (also stale ones), SafeToNotar / SafeToSkip (plausible and hostile), standstill bundles with arbitrary contents; groups locally reordered (children before parents, certificates before blocks, events for pruned windows); non-trivial = the node cast at least two votes; distinct by full trace".into();
    let mut kc: Vec<_> = kind_count.into_iter().collect(); kc.sort();
    stats.distribution.push(("event_kinds".into(), kc.iter().map(|(k, c)| format!("{}={}", k, c)).collect::<Vec<_>>().join(", ")));
    stats.distribution.push(("own_votes_total".into(), format!("{}", total_votes)));
    stats.distribution.push(("panics".into(), format!("{}", panics)));
    CaseSet {
        header: "From AG Require Import Model.Pool Model.Votor Oracle.VotorRun.\n".to_string(),
        runner: "votor_run".to_string(),
        defs: Vec::new(),
        cases, descr, sigs, stats,
    }
}
