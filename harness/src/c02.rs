//! C02 (progress once the network is timely) and the run generator for C01 (agreement): scenarios for
//! the multi-node simulation of sim.rs.  Every scenario is derived from the seed; the families are
//! chosen to sit on the boundaries the property's quantifier names:
//!   stake distributions  equal / skewed / one whale below 20 % / faulty stake just below 20 % (19 of 100)
//!                        and correct stake exactly 80 % (fast path must still work) or just above 60 %
//!   fault sets           crashed (from the start or in mid-run) < 20 %, Byzantine (silent or noisy) < 20 %,
//!                        placed on every position of the leader rotation that the run reaches, also on
//!                        consecutive windows and on window 0
//!   pre-stabilisation    none (timely from the start), random long delays, partition, one straggler,
//!                        message loss (progress bounds then not applied, only eventual progress + agreement)
//!   post-stabilisation   random <= DELTA, always exactly DELTA, always minimal, fixed per link
use std::collections::{BTreeMap, HashSet};

use crate::coqfmt as cf;
use crate::poolgen::KeyRing;
use crate::rng::Rng;
use crate::sim::{Config, PostNet, PreNet, Role, RunResult, Sim, Terms};
use crate::{CaseSet, Stats, Tier};

pub const SUBS: &[(u64, &str)] = &[
    (900001, "c02:stall"),
    (900002, "c02:faulty-window-not-skipped"),
    (900003, "c02:correct-block-not-finalized"),
    (900004, "c02:no-fast-finalization"),
    (900005, "c02:correct-leader-did-not-propose"),
    (900006, "c02:votor-panic"),
    (900011, "c01:conflicting-finalization"),
    (900012, "c01:finalized-fork"),
    (900013, "c01:finalized-and-skipped"),
    (900014, "c01:pool-panic"),
    (990000, "sim:malformed-run-record"),
];

fn total(st: &[u64]) -> u64 { st.iter().sum() }

/// stakes and the faulty validators; returns (stakes, byz ids, crashed ids, family name)
fn stakes_and_faults(rng: &mut Rng, n: usize, want_fast: bool, windows_reached: u64) -> (Vec<u64>, Vec<usize>, Vec<usize>, &'static str) {
    // faulty validators sit on leader positions the run reaches
    let reach = (windows_reached as usize).min(n).max(1);
    let pick_pos = |rng: &mut Rng, avoid: &[usize]| -> usize {
        for _ in 0..20 {
            let p = if rng.chance(4, 5) { rng.below(reach as u64) as usize } else { rng.below(n as u64) as usize };
            if !avoid.contains(&p) { return p; }
        }
        (0..n).find(|p| !avoid.contains(p)).unwrap()
    };
    let fam = rng.below(6);
    match fam {
        0 => {
            // equal stakes: as many faulty validators as stay below 20 % each
            let k = (n - 1) / 5; // k/n < 1/5
            let mut byz = Vec::new(); let mut cr = Vec::new();
            let kb = rng.range(0, k as u64) as usize; let kc = rng.range(0, k as u64) as usize;
            let (kb, kc) = if want_fast { let tot = ((n as u64) / 5) as usize; let kb = kb.min(tot); (kb, kc.min(tot - kb)) } else { (kb, kc) };
            for _ in 0..kb { let p = pick_pos(rng, &byz); byz.push(p); }
            for _ in 0..kc { let mut av = byz.clone(); av.extend(&cr); let p = pick_pos(rng, &av); cr.push(p); }
            (vec![1; n], byz, cr, "equal")
        }
        1 | 2 => {
            // 100 units: one Byzantine with 19, one crashed with 19 (each just below 20 %), the rest shares 62;
            // for the fast path: faulty stake together exactly 20
            let b = pick_pos(rng, &[]); let c = pick_pos(rng, &[b]);
            let (sb, sc) = if want_fast { let x = rng.range(1, 19); (x, 20 - x) } else { (19, 19) };
            let mut st = vec![0u64; n];
            st[b] = sb; st[c] = sc;
            let rest = 100 - sb - sc; let others: Vec<usize> = (0..n).filter(|i| *i != b && *i != c).collect();
            let base = rest / others.len() as u64; let mut left = rest;
            for (k, &i) in others.iter().enumerate() { st[i] = if k + 1 == others.len() { left } else { base }; left -= st[i]; }
            (st, vec![b], vec![c], if want_fast { "faulty-exactly-20-percent" } else { "faulty-19-and-19-percent" })
        }
        3 => {
            // skewed: a correct whale, small faulty validators
            let mut st: Vec<u64> = (0..n).map(|_| rng.range(1, 6)).collect();
            let whale = rng.below(n as u64) as usize; st[whale] = total(&st) / 2 + 1;
            let t = total(&st);
            let mut byz = Vec::new(); let mut cr = Vec::new(); let (mut wb, mut wc) = (0u64, 0u64);
            let budget = if want_fast { t / 5 } else { u64::MAX };
            for _ in 0..3 {
                let mut av = byz.clone(); av.extend(&cr); av.push(whale); if av.len() >= n { break; }
                let p = pick_pos(rng, &av);
                if rng.chance(1, 2) { if (wb + st[p]) * 5 < t && wb + wc + st[p] <= budget { wb += st[p]; byz.push(p); } }
                else if (wc + st[p]) * 5 < t && wb + wc + st[p] <= budget { wc += st[p]; cr.push(p); }
            }
            (st, byz, cr, "skewed-whale")
        }
        4 => {
            // no faults at all
            ((0..n).map(|_| rng.range(1, 9)).collect(), vec![], vec![], "no-faults")
        }
        _ => {
            // small integers, greedy faulty sets below 20 % each
            let st: Vec<u64> = (0..n).map(|_| rng.range(1, 4)).collect();
            let t = total(&st);
            let mut byz = Vec::new(); let mut cr = Vec::new(); let (mut wb, mut wc) = (0u64, 0u64);
            let budget = if want_fast { t / 5 } else { u64::MAX };
            for _ in 0..4 {
                let mut av = byz.clone(); av.extend(&cr); if av.len() >= n { break; }
                let p = pick_pos(rng, &av);
                if rng.chance(1, 2) { if (wb + st[p]) * 5 < t && wb + wc + st[p] <= budget { wb += st[p]; byz.push(p); } }
                else if (wc + st[p]) * 5 < t && wb + wc + st[p] <= budget { wc += st[p]; cr.push(p); }
            }
            (st, byz, cr, "small-ints")
        }
    }
}

pub fn scenario(rng: &mut Rng, tier: Tier, for_c01: bool, k: u64) -> (Config, String) {
    let n = match tier {
        Tier::Quick => *rng.pick(&[4usize, 5, 5, 6, 7, 8, 10]),
        Tier::Thorough => *rng.pick(&[4usize, 4, 5, 5, 6, 6, 7, 7, 8, 8, 10, 10, 11, 13, 16, 21, 30]),
    };
    let want_fast = rng.chance(1, 3);
    let windows_after = if n > 13 { 3 } else { rng.range(3, 6) };
    let pre = match (k + rng.below(2)) % 6 { 0 | 1 => None, 2 => Some(PreNet::Random), 3 => Some(PreNet::Partition), 4 => Some(PreNet::Straggler), _ => Some(if for_c01 || rng.chance(1, 2) { PreNet::Lossy } else { PreNet::Random }) };
    let gst = match pre { None => 0, Some(_) => *rng.pick(&[300u64, 900, 1700, 2600, 4000, 6500]) };
    let reached = windows_after + gst / 1600 + 1;
    let (stakes, mut byz, crashed, fam) = stakes_and_faults(rng, n, want_fast, reached);
    if for_c01 && byz.is_empty() {
        // agreement runs always have an adversary: the first validator (in rotation order) below 20 % that is not crashed
        let t: u64 = stakes.iter().sum();
        if let Some(b) = (0..n).find(|i| !crashed.contains(i) && stakes[*i] * 5 < t) { byz.push(b); }
    }
    let mut roles = vec![Role::Correct; n];
    let noisy = for_c01 || rng.chance(2, 3);
    for &b in &byz { roles[b] = if noisy && (for_c01 || rng.chance(3, 4)) { Role::ByzNoisy } else { Role::ByzSilent }; }
    for &c in &crashed { roles[c] = Role::Crashed(if rng.chance(1, 2) { 0 } else { rng.range(1, gst + 4000) }); }
    let post = *rng.pick(&[PostNet::Random, PostNet::Random, PostNet::AlwaysMax, PostNet::AlwaysMin, PostNet::PerLink]);
    let cfg = Config {
        stakes: stakes.clone(), roles: roles.clone(), gst, pre: pre.unwrap_or(PreNet::Random), post, windows_after,
        byz_after_gst: for_c01 || rng.chance(2, 3), dup_percent: if rng.chance(1, 3) { 5 } else { 0 }, equivocate_with_crashes: for_c01, seed: rng.next(),
    };
    let descr = format!("n={} stakes={:?} ({}) byz={:?} crashed={:?} roles={:?} gst={} pre={:?} post={:?} windows_after={} byz_after_gst={}",
                        n, stakes, fam, byz, crashed, roles, gst, pre, post, windows_after, cfg.byz_after_gst);
    (cfg, descr)
}

fn class_of(cfg: &Config) -> String {
    let byz = if cfg.roles.iter().any(|r| *r == Role::ByzNoisy) { "byz-noisy" } else if cfg.roles.iter().any(|r| *r == Role::ByzSilent) { "byz-silent" } else { "no-byz" };
    let cr = if cfg.roles.iter().any(|r| matches!(r, Role::Crashed(_))) { "crash" } else { "no-crash" };
    let net = if cfg.gst == 0 { "timely".to_string() } else { format!("{:?}", cfg.pre).to_lowercase() };
    format!("{}:{}:{}", byz, cr, net)
}

fn gen_runs(seed: u64, tier: Tier, for_c01: bool) -> CaseSet {
    let mut rng = Rng::new(seed ^ if for_c01 { 0xC01 } else { 0xC02 });
    let mut ring = KeyRing::new();
    let mut terms = Terms::default();
    let nruns = match (tier, for_c01) { (Tier::Quick, _) => 36, (Tier::Thorough, _) => 240 };
    let (mut cases, mut descr, mut sigs) = (Vec::new(), Vec::new(), Vec::new());
    let mut stats = Stats::default();
    let mut seen = HashSet::new();
    let mut kinds: BTreeMap<String, u64> = BTreeMap::new();
    let mut classes: BTreeMap<String, u64> = BTreeMap::new();
    let (mut good, mut faulty, mut steps, mut strict_runs) = (0u64, 0u64, 0usize, 0u64);
    let mut sizes: Vec<usize> = Vec::new();
    for id in 0..nruns as u64 {
        let (cfg, d) = scenario(&mut rng, tier, for_c01, id);
        let class = class_of(&cfg);
        let n = cfg.stakes.len();
        let keys = ring.get(n);
        let res: RunResult = Sim::new(cfg, keys, &mut terms).run(id);
        for (sub, name) in SUBS {
            // progress failures of a run that is stuck on a child of the genesis block get their own signature
            let progress = *sub < 900010;
            if progress && res.genesis_child_stuck { sigs.push((id, *sub, format!("c02:genesis-child-never-certified:{}", &name[4..]))); }
            else { sigs.push((id, *sub, format!("{}:{}", name, class))); }
        }
        if res.genesis_child_stuck { *kinds.entry("run-stuck-on-child-of-genesis".into()).or_default() += 1; }
        sigs.push((id, 0, format!("sim:model-differs:{}", class)));
        for (k, c) in &res.kinds { *kinds.entry(k.to_string()).or_default() += c; }
        *classes.entry(class.clone()).or_default() += 1;
        good += res.good_windows; faulty += res.faulty_windows; steps += res.steps_total;
        if res.strict { strict_runs += 1; }
        sizes.push(res.steps_total);
        for f in &res.findings { stats.harness_findings.push((id, format!("sim:{}:{}", if f.contains("panicked") { "panic" } else { "invalid-message" }, f.chars().take(160).collect::<String>()))); }
        stats.evaluations += 1;
        if res.good_windows + res.faulty_windows > 0 && seen.insert(res.term_body.clone()) { stats.distinct_nontrivial += 1; }
        let fins: Vec<String> = res.final_fin.iter().map(|(i, f)| format!("{}:{}", i, f)).collect();
        descr.push(format!("run {}: {} | horizon={} strict={} blocks={} steps={} end_t={}ms final finalized slots {:?} judged windows: {} good, {} faulty",
                           id, d, res.horizon, res.strict, res.blocks.len(), res.steps_total, res.end_time, fins, res.good_windows, res.faulty_windows));
        if stats.samples.is_empty() && res.good_windows > 0 { stats.samples.push(format!("mkRun {} {}", id, res.term_body).chars().take(1500).collect()); }
        cases.push(format!("(mkRun {} {})", cf::n(id), res.term_body));
    }
    stats.rule = format!("{} simulated runs of n validators (each correct one = the real PoolImpl + the real Votor) in virtual time: stake families equal / 19+19 % faulty / faulty exactly 20 % (fast path) / skewed whale / no faults / small integers; crashed (from the start or mid-run) and Byzantine (silent, or noisy: equivocating notar votes, skip+notar, final without notar, fallback votes, window-wide skips; as leaders silent / equivocating / partial dissemination) validators placed on the leader positions the run reaches; network before stabilisation: timely, random long delays, partition, straggler, lossy; after: random / always DELTA / minimal / per-link; duplication 5 % in a third of the runs; non-trivial = at least one window judged by the progress oracle; distinct by full recorded run", nruns);
    {
        let (m, problem) = crate::sim::timer_schedule(ring.get(4));
        if let Some(e) = problem { stats.harness_findings.push((0, format!("sim:timer-task-malformed:Votor::set_timeouts delivered {} instead of the crashed-leader timeout followed by one timeout per slot of window 0", e.chars().take(120).collect::<String>()))); }
        stats.distribution.push(("timer_schedule_ms_after_set_timeouts".into(), format!("measured from the real timer task: crashed-leader {} slots {:?}; documented: {:?}", m.0, m.1, crate::sim::mirrored_timer_schedule())));
    }
    stats.distribution.push(("scenario_classes".into(), classes.iter().map(|(k, c)| format!("{}={}", k, c)).collect::<Vec<_>>().join(", ")));
    stats.distribution.push(("adversary_and_recovery_actions".into(), kinds.iter().map(|(k, c)| format!("{}={}", k, c)).collect::<Vec<_>>().join(", ")));
    stats.distribution.push(("windows_judged_after_stabilisation".into(), format!("correct leader={} faulty leader={}", good, faulty)));
    stats.distribution.push(("node_steps_total".into(), format!("{}", steps)));
    stats.distribution.push(("runs_without_message_loss".into(), format!("{}", strict_runs)));
    sizes.sort();
    if !sizes.is_empty() { stats.distribution.push(("steps_per_run".into(), format!("min={} median={} max={}", sizes[0], sizes[sizes.len() / 2], sizes[sizes.len() - 1]))); }
    CaseSet {
        header: "From AG Require Import Model.Pool Model.Votor Model.Node Oracle.C02.\n".to_string(),
        runner: if for_c01 { "c01_run" } else { "c02_run" }.to_string(),
        defs: terms.defs,
        cases, descr, sigs, stats,
    }
}

pub fn gen_c02(seed: u64, tier: Tier) -> CaseSet { gen_runs(seed, tier, false) }
pub fn gen_c01(seed: u64, tier: Tier) -> CaseSet { gen_runs(seed, tier, true) }
