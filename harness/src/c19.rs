//! C19: wire format.  Builds every message variant with the crate's own constructors (votes, the five
//! certificate types over validator sets of 1..=2048, shreds from all four shredders, repair requests and
//! responses, transactions), serialises them with `wincode::serialize` (what `Network::send` does),
//! feeds the encodings and a catalogue of mutated / truncated / extended / arbitrary byte strings to
//! `alpenglow::network::deserialize` under catch_unwind, re-encodes whatever decodes, and renders
//! bytes + observations for Model/Wire.v / Oracle/C19.v.
use std::collections::{HashMap, HashSet};
use std::fmt::Debug;
use std::panic::{AssertUnwindSafe, catch_unwind};

use alpenglow::consensus::{
    Cert, ConsensusMessage, FastFinalCert, FinalCert, FinalVote, NotarCert, NotarFallbackCert, NotarFallbackVote,
    NotarVote, SkipCert, SkipFallbackVote, SkipVote, Vote,
};
use alpenglow::crypto::aggsig::SecretKey;
use alpenglow::crypto::merkle::{DoubleMerkleProof, DoubleMerkleTree, SliceRoot};
use alpenglow::crypto::{AggregateSignature, Hash, IndividualSignature, signature};
use alpenglow::network::{MTU_BYTES, deserialize, localhost_ip_sockaddr};
use alpenglow::repair::{RepairRequest, RepairRequestType, RepairResponse};
use alpenglow::shredder::{
    AontShredder, CodingOnlyShredder, MAX_DATA_PER_SLICE, PetsShredder, RegularShredder, Shred, ShredIndex, Shredder,
    TOTAL_SHREDS,
};
use alpenglow::types::{Slice, SliceIndex, Slot};
use alpenglow::{Stake, Transaction, ValidatorIndex, ValidatorInfo};
use rand::SeedableRng;

use crate::coqfmt as cf;
use crate::rng::Rng;
use crate::{CaseSet, Stats, Tier};

// ------------------------------------------------------------------------------------------------
// deterministic keys
// ------------------------------------------------------------------------------------------------
fn bls_key(tag: u64) -> SecretKey {
    let mut r = Rng::new(0xB15_0000 ^ tag);
    let mut b = r.bytes(32);
    b[0] = 0; // big-endian scalar below the group order
    b[31] |= 1;
    SecretKey::try_from_bytes(&b).expect("valid BLS scalar")
}

fn ed_key(tag: u64) -> signature::SecretKey {
    let mut r = rand::rngs::StdRng::seed_from_u64(0xED25519 ^ tag);
    signature::SecretKey::new(&mut r)
}

fn info(i: u64, stake: u64, sk: &SecretKey, ed: &signature::SecretKey) -> ValidatorInfo {
    ValidatorInfo {
        id: ValidatorIndex::new(i),
        stake: Stake::new(stake),
        pubkey: ed.to_pk(),
        voting_pubkey: sk.to_pk(),
        all2all_address: localhost_ip_sockaddr(0),
        disseminator_address: localhost_ip_sockaddr(0),
        repair_requester_address: localhost_ip_sockaddr(0),
        repair_responder_address: localhost_ip_sockaddr(0),
    }
}

fn v2h(v: &[u8]) -> Hash {
    wincode::deserialize::<Hash>(v).expect("32 bytes decode to a Hash")
}

fn slice_index(i: u64) -> SliceIndex {
    wincode::deserialize::<SliceIndex>(&i.to_le_bytes()).expect("slice index in range")
}

// ------------------------------------------------------------------------------------------------
// the observable bound on the signer bitmask (MAX_SIGNERS is private): probed on the real decoder
// ------------------------------------------------------------------------------------------------
pub fn probe_max_signer_words() -> usize {
    let sk = bls_key(1);
    let ed = ed_key(1);
    let vote = NotarVote::new(Slot::new(1), v2h(&[7u8; 32]).into(), &sk, ValidatorIndex::new(0));
    let cert = NotarCert::try_new(&[vote], &[info(0, 1, &sk, &ed)]).expect("cert");
    let bytes = wincode::serialize(&cert).expect("serialize");
    // slot 8 | hash 32 | sig 96 | num_bits 8 | len 8 | words | stake 8
    let prefix = &bytes[..136];
    let accepts = |words: usize| -> bool {
        let mut b = prefix.to_vec();
        b.extend_from_slice(&0u64.to_le_bytes());
        b.extend_from_slice(&(words as u64).to_le_bytes());
        b.extend(std::iter::repeat(0u8).take(8 * words));
        b.extend_from_slice(&1u64.to_le_bytes());
        deserialize::<NotarCert>(&b).is_ok()
    };
    let mut max = 0usize;
    let mut seen_reject = false;
    for w in 0..=256usize {
        if accepts(w) {
            assert!(!seen_reject, "accepted bitmask lengths are not an initial segment");
            max = w;
        } else {
            seen_reject = true;
        }
    }
    assert!(accepts(0), "empty bitmask must decode");
    max
}

// ------------------------------------------------------------------------------------------------
// observations
// ------------------------------------------------------------------------------------------------
#[derive(Clone, Copy, PartialEq, Eq, Hash, Debug)]
enum Chan { Consensus, Shred, Req, Resp, Tx }

impl Chan {
    fn coq(self) -> &'static str {
        match self { Chan::Consensus => "ChConsensus", Chan::Shred => "ChShred", Chan::Req => "ChRepairReq", Chan::Resp => "ChRepairResp", Chan::Tx => "ChTx" }
    }
    fn name(self) -> &'static str {
        match self { Chan::Consensus => "consensus", Chan::Shred => "shred", Chan::Req => "repair-request", Chan::Resp => "repair-response", Chan::Tx => "transaction" }
    }
}

enum Obs {
    Panic,
    Err,
    Ok { reenc: Vec<u8>, second: Option<Vec<u8>>, dbg_eq: bool, trailing_rejected: bool, prefix_rejected: bool, summary: Vec<u64> },
}

fn summary_consensus(m: &ConsensusMessage) -> Vec<u64> {
    match m {
        ConsensusMessage::Vote(v) => {
            let kind = match v { Vote::Notar(_) => 0, Vote::NotarFallback(_) => 1, Vote::Skip(_) => 2, Vote::SkipFallback(_) => 3, Vote::Final(_) => 4 };
            vec![0, kind, v.slot().inner(), v.signer().inner()]
        }
        ConsensusMessage::Cert(c) => {
            let kind = match c { Cert::Notar(_) => 0, Cert::NotarFallback(_) => 1, Cert::Skip(_) => 2, Cert::FastFinal(_) => 3, Cert::Final(_) => 4 };
            let (a, b) = c.verif_halves();
            let mut s = vec![1, kind, c.slot().inner(), c.stake().inner(), a.len() as u64];
            s.extend(a.iter().map(|v| v.inner()));
            s.extend(b.iter().map(|v| v.inner()));
            s
        }
    }
}

fn summary_shred(s: &Shred) -> Vec<u64> {
    vec![s.is_coding() as u64, s.payload().index_in_slot() as u64]
}

fn dbg_same<T: Debug>(a: &T, b: &T) -> bool { format!("{:?}", a) == format!("{:?}", b) }

/// equality of two decoded consensus messages: certificates derive PartialEq (their Debug output contains the
/// heap address of the bitmask and cannot be compared), votes are compared through Debug (all fields printed)
fn consensus_same(a: &ConsensusMessage, b: &ConsensusMessage) -> bool {
    match (a, b) {
        (ConsensusMessage::Cert(x), ConsensusMessage::Cert(y)) => x == y,
        (ConsensusMessage::Vote(x), ConsensusMessage::Vote(y)) => dbg_same(x, y),
        _ => false,
    }
}

macro_rules! observe {
    ($t:ty, $bytes:expr, $summary:expr, $same:expr) => {{
        let bytes: &[u8] = $bytes;
        let r = catch_unwind(AssertUnwindSafe(|| -> Obs {
            let m: $t = match deserialize::<$t>(bytes) { Ok(m) => m, Err(_) => return Obs::Err };
            let reenc = wincode::serialize(&m).expect("serialize");
            let (second, dbg_eq) = match deserialize::<$t>(&reenc) {
                Ok(m2) => { let same: fn(&$t, &$t) -> bool = $same; (Some(wincode::serialize(&m2).expect("serialize")), same(&m, &m2)) }
                Err(_) => (None, false),
            };
            let mut ext = bytes.to_vec(); ext.push(0);
            let mut ext2 = reenc.clone(); ext2.push(0xff);
            let trailing_rejected = deserialize::<$t>(&ext).is_err() && deserialize::<$t>(&ext2).is_err();
            let prefix_rejected = bytes.is_empty() || (deserialize::<$t>(&bytes[..bytes.len() - 1]).is_err() && deserialize::<$t>(&bytes[..bytes.len() / 2]).is_err());
            let f: fn(&$t) -> Vec<u64> = $summary;
            Obs::Ok { reenc, second, dbg_eq, trailing_rejected, prefix_rejected, summary: f(&m) }
        }));
        match r { Ok(o) => o, Err(_) => Obs::Panic }
    }};
}

fn observe_chan(ch: Chan, bytes: &[u8]) -> Obs {
    match ch {
        Chan::Consensus => observe!(ConsensusMessage, bytes, summary_consensus, consensus_same),
        Chan::Shred => observe!(Shred, bytes, summary_shred, dbg_same),
        Chan::Req => observe!(RepairRequest, bytes, |_| Vec::new(), dbg_same),
        Chan::Resp => observe!(RepairResponse, bytes, |_| Vec::new(), dbg_same),
        Chan::Tx => observe!(Transaction, bytes, |_| Vec::new(), dbg_same),
    }
}

/// validity of a 96-byte window as an individual / aggregate BLS signature, decided by the real decoders
fn blob_verdicts(w: &[u8]) -> (bool, bool) {
    let i = catch_unwind(AssertUnwindSafe(|| wincode::deserialize::<IndividualSignature>(w).is_ok())).unwrap_or(false);
    let mut a = w.to_vec();
    a.extend_from_slice(&[0u8; 16]);
    let g = catch_unwind(AssertUnwindSafe(|| wincode::deserialize::<AggregateSignature>(&a).is_ok())).unwrap_or(false);
    (i, g)
}

/// generous superset of the positions at which the consensus decoder can look for a BLS point
fn blob_windows(bytes: &[u8]) -> Vec<Vec<u8>> {
    let mut offs: Vec<usize> = vec![16, 17, 18, 48, 49, 50];
    for o in [16usize, 17, 48, 49] {
        // first aggregate at o: num_bits at o+96, len at o+104, words, then option tag + second aggregate
        if bytes.len() >= o + 112 {
            let l = u64::from_le_bytes(bytes[o + 104..o + 112].try_into().unwrap());
            if l <= 256 { offs.push(o + 112 + 8 * l as usize + 1); offs.push(o + 112 + 8 * l as usize); }
        }
    }
    let mut out: Vec<Vec<u8>> = Vec::new();
    for o in offs {
        if bytes.len() >= o + 96 {
            let w = bytes[o..o + 96].to_vec();
            if !out.contains(&w) { out.push(w); }
        }
    }
    out
}

// ------------------------------------------------------------------------------------------------
// message builders
// ------------------------------------------------------------------------------------------------
/// `class` = "<quick class>|<thorough key>": the mutation catalogue runs on the first base of every quick class in the
/// quick tier and on the first base of every distinct full string in the thorough tier; "" = never mutated
struct Built { ch: Chan, bytes: Vec<u8>, summary: Vec<u64>, what: String, fields: Vec<(&'static str, usize)>, class: String }

struct VoteForge { sk: SecretKey, ed: signature::SecretKey, cache: HashMap<(u64, u64, Vec<u8>), Vec<u8>> }

impl VoteForge {
    fn new() -> Self { VoteForge { sk: bls_key(2), ed: ed_key(2), cache: HashMap::new() } }
    /// signature bytes of the vote payload (kind, slot, hash), made once with the real constructor
    fn sig(&mut self, kind: u64, slot: u64, hash: &[u8]) -> Vec<u8> {
        let key = (kind, slot, hash.to_vec());
        if let Some(s) = self.cache.get(&key) { return s.clone(); }
        let s = Slot::new(slot);
        let v = ValidatorIndex::new(0);
        let h = || v2h(hash).into();
        let b = match kind {
            0 => wincode::serialize(&NotarVote::new(s, h(), &self.sk, v)).unwrap()[40..136].to_vec(),
            1 => wincode::serialize(&NotarFallbackVote::new(s, h(), &self.sk, v)).unwrap()[40..136].to_vec(),
            2 => wincode::serialize(&SkipVote::new(s, &self.sk, v)).unwrap()[8..104].to_vec(),
            3 => wincode::serialize(&SkipFallbackVote::new(s, &self.sk, v)).unwrap()[8..104].to_vec(),
            _ => wincode::serialize(&FinalVote::new(s, &self.sk, v)).unwrap()[8..104].to_vec(),
        };
        self.cache.insert(key, b.clone());
        b
    }
    fn vote_bytes(&mut self, kind: u64, slot: u64, hash: &[u8], signer: u64) -> Vec<u8> {
        let mut b = Vec::new();
        b.extend_from_slice(&slot.to_le_bytes());
        if kind <= 1 { b.extend_from_slice(hash); }
        b.extend_from_slice(&self.sig(kind, slot, hash));
        b.extend_from_slice(&signer.to_le_bytes());
        b
    }
    /// a real vote object; for signer 0 straight from the constructor, otherwise the same signature under another signer index
    fn vote(&mut self, kind: u64, slot: u64, hash: &[u8], signer: u64) -> Vote {
        let s = Slot::new(slot);
        let v = ValidatorIndex::new(signer);
        match kind {
            0 => Vote::new_notar(s, v2h(hash).into(), &self.sk, v),
            1 => Vote::new_notar_fallback(s, v2h(hash).into(), &self.sk, v),
            2 => Vote::new_skip(s, &self.sk, v),
            3 => Vote::new_skip_fallback(s, &self.sk, v),
            _ => Vote::new_final(s, &self.sk, v),
        }
    }
    fn infos(&self, n: u64, stake: u64) -> Vec<ValidatorInfo> {
        let base = info(0, stake, &self.sk, &self.ed);
        (0..n).map(|i| { let mut x = base.clone(); x.id = ValidatorIndex::new(i); x }).collect()
    }
    fn cert(&mut self, kind: u64, slot: u64, hash: &[u8], n: u64, s1: &[u64], s2: &[u64], stake: u64) -> Option<Cert> {
        let infos = self.infos(n, stake);
        macro_rules! votes { ($t:ty, $k:expr, $set:expr) => {{
            let mut out: Vec<$t> = Vec::new();
            for v in $set.iter() { out.push(wincode::deserialize::<$t>(&self.vote_bytes($k, slot, hash, *v)).ok()?); }
            out
        }}; }
        Some(match kind {
            0 => Cert::Notar(NotarCert::try_new(&votes!(NotarVote, 0, s1), &infos).ok()?),
            3 => Cert::FastFinal(FastFinalCert::try_new(&votes!(NotarVote, 0, s1), &infos).ok()?),
            4 => Cert::Final(FinalCert::try_new(&votes!(FinalVote, 4, s1), &infos).ok()?),
            1 => Cert::NotarFallback(NotarFallbackCert::try_new(&votes!(NotarVote, 0, s1), &votes!(NotarFallbackVote, 1, s2), &infos).ok()?),
            _ => Cert::Skip(SkipCert::try_new(&votes!(SkipVote, 2, s1), &votes!(SkipFallbackVote, 3, s2), &infos).ok()?),
        })
    }
}

fn built_consensus(m: &ConsensusMessage, what: String, fields: Vec<(&'static str, usize)>, class: String) -> Built {
    Built { ch: Chan::Consensus, bytes: wincode::serialize(m).expect("serialize"), summary: summary_consensus(m), what, fields, class }
}

/// offsets of the interesting fields of an encoded consensus message (used only to aim mutations)
fn consensus_fields(bytes: &[u8]) -> Vec<(&'static str, usize)> {
    let mut f = vec![("tag32", 0usize), ("tag32", 4), ("u64", 8)];
    if bytes.len() < 8 { return f; }
    let outer = u32::from_le_bytes(bytes[0..4].try_into().unwrap());
    let inner = u32::from_le_bytes(bytes[4..8].try_into().unwrap());
    if outer == 0 {
        let sig = if inner <= 1 { 48 } else { 16 };
        f.push(("bls", sig));
        f.push(("u64", sig + 96));
        if inner <= 1 { f.push(("hash", 16)); }
    } else {
        let (has_hash, two) = match inner { 0 | 3 => (true, false), 1 => (true, true), 2 => (false, true), _ => (false, false) };
        let mut o = if has_hash { f.push(("hash", 16)); 48 } else { 16 };
        let halves = if two { 2 } else { 1 };
        for _ in 0..halves {
            if two {
                f.push(("opt", o));
                if bytes.get(o) != Some(&1) { o += 1; continue; }
                o += 1;
            }
            if bytes.len() < o + 112 { return f; }
            f.push(("bls", o));
            f.push(("numbits", o + 96));
            f.push(("wordslen", o + 104));
            let l = u64::from_le_bytes(bytes[o + 104..o + 112].try_into().unwrap()) as usize;
            if l > 0 && l <= 64 { f.push(("lastword", o + 112 + 8 * (l - 1))); f.push(("firstword", o + 112)); }
            f.push(("wordsend", o + 112 + 8 * l.min(64)));
            o += 112 + 8 * l.min(64);
        }
        f.push(("u64", o));
    }
    f
}

fn shred_fields(bytes: &[u8], base: usize) -> Vec<(&'static str, usize)> {
    let mut f = vec![("tag32", base), ("u64", base + 4), ("slice", base + 12), ("bool", base + 20), ("shredidx", base + 21), ("veclen8", base + 29)];
    if bytes.len() >= base + 37 {
        let l = u64::from_le_bytes(bytes[base + 29..base + 37].try_into().unwrap()) as usize;
        if l <= 1500 {
            f.push(("edsig", base + 37 + l));
            f.push(("veclen32", base + 37 + l + 64));
            f.push(("hash", base + 37 + l + 72));
        }
    }
    f
}

fn reqtype_fields(bytes: &[u8], base: usize) -> (Vec<(&'static str, usize)>, usize) {
    let mut f = vec![("tag32", base), ("u64", base + 4), ("hash", base + 12)];
    let mut end = base + 44;
    if bytes.len() >= base + 4 {
        let t = u32::from_le_bytes(bytes[base..base + 4].try_into().unwrap());
        if t >= 1 { f.push(("slice", base + 44)); end += 8; }
        if t >= 2 { f.push(("shredidx", base + 52)); end += 8; }
    }
    (f, end)
}

// ------------------------------------------------------------------------------------------------
// mutations
// ------------------------------------------------------------------------------------------------
fn put64(b: &mut Vec<u8>, off: usize, v: u64) { if b.len() >= off + 8 { b[off..off + 8].copy_from_slice(&v.to_le_bytes()); } }
fn get64(b: &[u8], off: usize) -> u64 { if b.len() >= off + 8 { u64::from_le_bytes(b[off..off + 8].try_into().unwrap()) } else { 0 } }
fn put32(b: &mut Vec<u8>, off: usize, v: u32) { if b.len() >= off + 4 { b[off..off + 4].copy_from_slice(&v.to_le_bytes()); } }

/// the mutation catalogue for one encoded message; every entry is (name, bytes)
fn mutations(base: &Built, rng: &mut Rng, full: bool) -> Vec<(String, Vec<u8>)> {
    let b = &base.bytes;
    let mut out: Vec<(String, Vec<u8>)> = Vec::new();
    let mut add = |name: &str, v: Vec<u8>| out.push((name.to_string(), v));
    // truncation / extension
    if !b.is_empty() {
        add("truncate-1", b[..b.len() - 1].to_vec());
        add("truncate-random", b[..rng.below(b.len() as u64) as usize].to_vec());
    }
    add("empty", Vec::new());
    { let mut v = b.clone(); v.push(rng.next() as u8); add("extend-1", v); }
    { let mut v = b.clone(); v.extend_from_slice(&rng.bytes(8)); add("extend-8", v); }
    { let mut v = b.clone(); v.extend_from_slice(b); add("doubled", v); }
    for (kind, off) in base.fields.iter().copied() {
        if off > b.len() { continue; }
        match kind {
            "tag32" => {
                let cur = if b.len() >= off + 4 { u32::from_le_bytes(b[off..off + 4].try_into().unwrap()) } else { 0 };
                for (n, v) in [("tag-plus-1", cur.wrapping_add(1)), ("tag-5", 5u32), ("tag-max", u32::MAX), ("tag-high-byte", cur | 0x0100_0000), ("tag-other", (cur + 2) % 5)] {
                    let mut x = b.clone(); put32(&mut x, off, v); add(&format!("{}@{}", n, off), x);
                }
            }
            "u64" if full => { let mut x = b.clone(); put64(&mut x, off, u64::MAX - rng.below(2)); add(&format!("u64-max@{}", off), x); }
            "slice" => for v in [1023u64, 1024, 1025, u64::MAX, 1 << 32] { let mut x = b.clone(); put64(&mut x, off, v); add(&format!("slice-index-{}@{}", v, off), x); },
            "shredidx" => for v in [63u64, 64, 65, u64::MAX, 1 << 8] { let mut x = b.clone(); put64(&mut x, off, v); add(&format!("shred-index-{}@{}", v, off), x); },
            "bool" => for v in [0u8, 1, 2, 255] { let mut x = b.clone(); if off < x.len() { x[off] = v; } add(&format!("bool-{}@{}", v, off), x); },
            "opt" => for v in [0u8, 1, 2, 255] { let mut x = b.clone(); if off < x.len() { x[off] = v; } add(&format!("option-tag-{}@{}", v, off), x); },
            "bls" => {
                if b.len() >= off + 96 {
                    let mut x = b.clone(); let k = off + rng.below(96) as usize; x[k] ^= 1 << rng.below(8); add(&format!("bls-bitflip@{}", off), x);
                    let mut x = b.clone(); for k in 0..96 { x[off + k] = 0; } x[off] = 0x40; add(&format!("bls-infinity@{}", off), x);
                    let mut x = b.clone(); x[off] |= 0x80; add(&format!("bls-compressed-flag@{}", off), x);
                    let mut x = b.clone(); x[off] |= 0x20; add(&format!("bls-sort-flag@{}", off), x);
                    if full { let mut x = b.clone(); for k in 0..96 { x[off + k] = 0; } add(&format!("bls-zero@{}", off), x); }
                    if full { let mut x = b.clone(); let r = rng.bytes(96); x[off..off + 96].copy_from_slice(&r); add(&format!("bls-random@{}", off), x); }
                }
            }
            "hash" | "edsig" => { if off < b.len() { let mut x = b.clone(); x[off] ^= 0xff; add(&format!("{}-flip@{}", kind, off), x); } }
            "numbits" => {
                let nb = get64(b, off); let l = get64(b, off + 8);
                for (n, v) in [("num-bits-plus-1", nb.wrapping_add(1)), ("num-bits-minus-1", nb.wrapping_sub(1)), ("num-bits-0", 0), ("num-bits-64len", 64 * l), ("num-bits-64len-plus-1", 64 * l + 1), ("num-bits-64len-minus-64", (64 * l).wrapping_sub(64)), ("num-bits-huge", u64::MAX - rng.below(3)), ("num-bits-2049", 2049)] {
                    let mut x = b.clone(); put64(&mut x, off, v); add(&format!("{}@{}", n, off), x);
                }
            }
            "wordslen" => {
                let l = get64(b, off);
                for (n, v) in [("words-len-plus-1", l + 1), ("words-len-minus-1", l.wrapping_sub(1)), ("words-len-188", 188), ("words-len-huge", 1 << 61), ("words-len-max", u64::MAX)] {
                    let mut x = b.clone(); put64(&mut x, off, v); add(&format!("{}@{}", n, off), x);
                }
            }
            "wordsend" => {
                // extra words appended to the bitmask (length adjusted): accepted up to the cap, dropped on re-encoding
                let lenoff = base.fields.iter().rev().find(|(k, o)| *k == "wordslen" && *o < off).map(|(_, o)| *o);
                if let Some(lo) = lenoff {
                    let l = get64(b, lo);
                    for extra in [1u64, 2, 32u64.saturating_sub(l), 33u64.saturating_sub(l), 187u64.saturating_sub(l), 188u64.saturating_sub(l)] {
                        if extra == 0 { continue; }
                        let mut x = b[..off].to_vec();
                        for _ in 0..extra { x.extend_from_slice(&(if rng.chance(1, 2) { 0u64 } else { rng.next() }).to_le_bytes()); }
                        x.extend_from_slice(&b[off..]);
                        put64(&mut x, lo, l + extra);
                        add(&format!("bitmask-{}-extra-words@{}", extra, off), x);
                    }
                }
            }
            "lastword" => {
                let mut x = b.clone(); let w = get64(b, off); put64(&mut x, off, w | 0x8000_0000_0000_0000); add(&format!("dead-bit-63-set@{}", off), x);
                let mut x = b.clone(); put64(&mut x, off, u64::MAX); add(&format!("last-word-all-ones@{}", off), x);
                let mut x = b.clone(); put64(&mut x, off, 0); add(&format!("last-word-zero@{}", off), x);
            }
            "firstword" if full => { let mut x = b.clone(); let w = get64(b, off); put64(&mut x, off, w ^ 1); add(&format!("first-word-bit0-flip@{}", off), x); }
            "veclen8" | "veclen32" => {
                let l = get64(b, off);
                let unit = if kind == "veclen8" { 1u64 } else { 32 };
                for (n, v) in [("vec-len-plus-1", l + 1), ("vec-len-minus-1", l.wrapping_sub(1)), ("vec-len-0", 0), ("vec-len-at-limit", 1500 / unit), ("vec-len-over-limit", 1500 / unit + 1), ("vec-len-huge", 1 << 60), ("vec-len-max", u64::MAX)] {
                    let mut x = b.clone(); put64(&mut x, off, v); add(&format!("{}@{}", n, off), x);
                }
                // consistent growth: one more element really present
                let mut x = b[..off + 8].to_vec();
                x.extend_from_slice(&rng.bytes(unit as usize));
                x.extend_from_slice(&b[(off + 8).min(b.len())..]);
                put64(&mut x, off, l + 1);
                add(&format!("vec-one-more-element@{}", off), x);
            }
            _ => {}
        }
    }
    if full {
        for _ in 0..3 { if b.is_empty() { break; } let mut x = b.clone(); let k = rng.below(b.len() as u64) as usize; x[k] ^= 1 << rng.below(8); add("random-bitflip", x); }
    }
    out
}

// ------------------------------------------------------------------------------------------------
// generator
// ------------------------------------------------------------------------------------------------
/// The receive path of the REAL UDP network (src/network/udp.rs: recv -> decode) must hand on exactly the datagrams
/// that `network::deserialize` accepts.  A few datagrams (a valid vote, the same with trailing bytes, truncated,
/// empty) are sent over the loopback interface to a real `UdpNetwork`, each followed by a sentinel message.
/// Returns (datagrams judged, findings, reason if the probe could not run).
fn udp_receive_probe() -> (u64, Vec<String>, Option<String>) {
    use alpenglow::network::{Network, UdpNetwork};
    let rt = match tokio::runtime::Builder::new_current_thread().enable_all().build() { Ok(r) => r, Err(e) => return (0, vec![], Some(format!("no runtime: {e}"))) };
    let net = {
        let _g = rt.enter();
        match catch_unwind(AssertUnwindSafe(UdpNetwork::<ConsensusMessage, ConsensusMessage>::new_with_any_port)) { Ok(n) => n, Err(_) => return (0, vec![], Some("UDP socket could not be bound".into())) }
    };
    let port = net.port();
    let sender = match std::net::UdpSocket::bind("127.0.0.1:0") { Ok(s) => s, Err(e) => return (0, vec![], Some(format!("no loopback sender: {e}"))) };
    let sk = bls_key(4242);
    let enc = |v: Vote| wincode::serialize(&ConsensusMessage::Vote(v)).expect("encode");
    let valid = enc(Vote::new_notar(Slot::new(5), v2h(&[9u8; 32]).into(), &sk, ValidatorIndex::new(1)));
    let sentinel = enc(Vote::new_skip(Slot::new(7777), &sk, ValidatorIndex::new(2)));
    let mut samples: Vec<(&str, Vec<u8>)> = vec![("valid", valid.clone())];
    { let mut b = valid.clone(); b.push(0); samples.push(("valid-plus-one-trailing-byte", b)); }
    { let mut b = valid.clone(); b.extend_from_slice(&[1, 2, 3, 4, 5, 6, 7, 8]); samples.push(("valid-plus-trailing-bytes", b)); }
    { let mut b = valid.clone(); b.extend_from_slice(&valid); samples.push(("valid-twice-in-one-datagram", b)); }
    { let mut b = valid.clone(); b.pop(); samples.push(("truncated", b)); }
    samples.push(("empty", vec![]));
    let mut findings = Vec::new();
    let mut judged = 0u64;
    let recv_one = |rt: &tokio::runtime::Runtime| -> Option<Vec<u8>> {
        rt.block_on(async { tokio::time::timeout(std::time::Duration::from_secs(5), net.receive()).await.ok().and_then(|r| r.ok()) }).map(|m| wincode::serialize(&m).expect("encode"))
    };
    for (name, bytes) in samples {
        let accepted = alpenglow::network::deserialize::<ConsensusMessage>(&bytes).is_ok();
        if sender.send_to(&bytes, ("127.0.0.1", port)).is_err() || sender.send_to(&sentinel, ("127.0.0.1", port)).is_err() { return (judged, findings, Some("loopback send failed".into())); }
        let Some(first) = recv_one(&rt) else { return (judged, findings, Some("nothing received over loopback".into())); };
        judged += 1;
        if first == sentinel {
            if accepted { findings.push(format!("wire:udp-receive-path:{}:dropped-although-deserialize-accepts", name)); }
            continue;
        }
        if !accepted { findings.push(format!("wire:udp-receive-path:{}:delivered-although-deserialize-rejects", name)); }
        else if first != bytes { findings.push(format!("wire:udp-receive-path:{}:delivered-another-message", name)); }
        // drain the sentinel
        let _ = recv_one(&rt);
    }
    (judged, findings, None)
}

pub fn gen_c19(seed: u64, tier: Tier) -> CaseSet {
    let mut rng = Rng::new(seed ^ 0xC19);
    let quick = tier == Tier::Quick;
    let mut it = cf::Interner::default();
    let (mut cases, mut descr, mut sigs) = (Vec::new(), Vec::new(), Vec::new());
    let mut stats = Stats::default();
    let mut seen: HashSet<Vec<u8>> = HashSet::new();
    let mut dist: HashMap<String, u64> = HashMap::new();
    let mut verdicts: HashMap<String, u64> = HashMap::new();
    let mut forge = VoteForge::new();
    let mut built: Vec<Built> = Vec::new();
    let hash_a = rng.bytes(32);

    // ---------------- votes ----------------
    let slots = [0u64, 1, 7, 1 << 32, u64::MAX];
    for kind in 0..5u64 {
        for (i, slot) in slots.iter().enumerate() {
            if quick && i >= 2 && (kind + i as u64) % 3 != 0 { continue; }
            let signer = *rng.pick(&[0u64, 1, 2047, 2048, u64::MAX]);
            let h = if i == 0 { vec![0u8; 32] } else { rng.bytes(32) };
            let m = ConsensusMessage::Vote(forge.vote(kind, *slot, &h, signer));
            let bytes = wincode::serialize(&m).unwrap();
            let f = consensus_fields(&bytes);
            built.push(built_consensus(&m, format!("vote kind {} slot {} signer {}", kind, slot, signer), f, format!("vote{}|{}", kind, i)));
        }
    }
    // ---------------- certificates over validator sets of every size class ----------------
    // validator counts 1..=MAX_SIGNERS (the supported maximum, as probed on the decoder), around every word boundary class
    let max_signers = (alpenglow::crypto::aggsig::verif_max_signers() as u64).max(130);
    let mut counts: Vec<u64> = vec![1, 2, 3, 63, 64, 65, 127, 128, 129, max_signers - 64, max_signers - 63, max_signers - 1, max_signers];
    if !quick { for n in [191u64, 192, 193, max_signers / 2 - 1, max_signers / 2, max_signers / 2 + 1, max_signers - 129, max_signers - 128, max_signers - 127] { counts.push(n); } }
    let nboundary = counts.len();
    let extra = if quick { 4 } else { 60 };
    for _ in 0..extra { counts.push(rng.range(1, max_signers)); }
    for (ci, n) in counts.iter().copied().enumerate() {
        for kind in 0..5u64 {
            if quick && n > 129 && (ci as u64 + kind) % 2 == 1 && n != max_signers { continue; }
            let mut subsets: Vec<(&'static str, Vec<u64>)> = vec![("lowest", vec![0]), ("highest", vec![n - 1])];
            let all: Vec<u64> = (0..n).collect();
            if !(quick && n > 129 && kind % 2 == 1) { subsets.push(("all", all.clone())); }
            let mut r: Vec<u64> = all.iter().copied().filter(|_| rng.chance(1, 2)).collect();
            if r.is_empty() { r.push(rng.below(n)); }
            subsets.push(("random-half", r));
            let edge: Vec<u64> = [62u64, 63, 64, 65, n.saturating_sub(2), n - 1].iter().copied().filter(|v| *v < n).collect::<std::collections::BTreeSet<_>>().into_iter().collect();
            if n > 3 { subsets.push(("word-boundaries", edge)); }
            for (sname, set) in subsets {
                let mixed = kind == 1 || kind == 2;
                let (s1, s2): (Vec<u64>, Vec<u64>) = if mixed {
                    match rng.below(4) { 0 => (set.clone(), vec![]), 1 => (vec![], set.clone()), _ => { let k = rng.range(0, set.len() as u64) as usize; let mut sh = set.clone(); rng.shuffle(&mut sh); (sh[..k].to_vec(), sh[k..].to_vec()) } }
                } else { (set.clone(), vec![]) };
                if mixed && s1.is_empty() && s2.is_empty() { continue; }
                let slot = *rng.pick(&[1u64, 5, 1 << 40, u64::MAX]);
                let stake = *rng.pick(&[1u64, 3, 1 << 50]);
                let Some(cert) = catch_unwind(AssertUnwindSafe(|| forge.cert(kind, slot, &hash_a, n, &s1, &s2, stake))).ok().flatten() else { continue };
                let m = ConsensusMessage::Cert(cert);
                let bytes = wincode::serialize(&m).unwrap();
                let f = consensus_fields(&bytes);
                let boundary_n = ci < nboundary;
                let class = if boundary_n && (sname == "random-half" || sname == "word-boundaries" || (sname == "lowest" && n == 1)) {
                    format!("cert{}-{}|{}-{}", kind, if n <= 3 { "tiny" } else if n <= 129 { "words" } else if n + 64 >= max_signers { "huge" } else { "mid" }, n, sname)
                } else { String::new() };
                built.push(built_consensus(&m, format!("cert kind {} over {} validators, signers {} ({}+{})", kind, n, sname, s1.len(), s2.len()), f, class));
            }
        }
    }
    // ---------------- shreds (byte level: Regular + CodingOnly, which are deterministic) ----------------
    let edk = ed_key(3);
    let mut shard_cases: Vec<(String, u64, u64, u64, u64)> = Vec::new(); // (what, Reed-Solomon input length, data len, proof len, encoded len)
    let mut payload_lens: Vec<u64> = vec![9, 10, 63, 64, 65, 127, 128, 1000, 16383, 16384, 32703, 32704, 32705, 32766, MAX_DATA_PER_SLICE as u64];
    for _ in 0..(if quick { 6 } else { 80 }) { payload_lens.push(rng.range(9, MAX_DATA_PER_SLICE as u64)); }
    let mut some_shred: Option<Shred> = None;
    let mut big_shred: Option<Shred> = None;
    for (pi, p) in payload_lens.iter().copied().enumerate() {
        let with_parent = p >= 49 && pi % 2 == 1;
        let dlen = p as usize - if with_parent { 49 } else { 9 };
        let slice = Slice {
            slot: Slot::new(*rng.pick(&[1u64, 2, 1 << 33, u64::MAX])),
            slice_index: slice_index(*rng.pick(&[0u64, 1, 512, 1023])),
            is_last: rng.chance(1, 2),
            parent: if with_parent { Some((Slot::new(rng.below(9)), v2h(&rng.bytes(32)).into())) } else { None },
            data: rng.bytes(dlen),
        };
        for coding_only in [false, true] {
            if quick && coding_only && pi % 3 != 0 { continue; }
            let shreds = if coding_only { CodingOnlyShredder::default().shred(&slice, &edk) } else { RegularShredder::default().shred(&slice, &edk) };
            let Ok(shreds) = shreds else { continue };
            let mut picks: Vec<usize> = vec![0, 31, 32, 63];
            if !quick { picks.push(rng.below(64) as usize); }
            if quick && pi >= 4 { picks = vec![*rng.pick(&[0usize, 31, 32, 63])]; }
            let first_pick = picks[0];
            for k in picks {
                let s: Shred = shreds[k].clone().into_shred();
                let bytes = wincode::serialize(&s).unwrap();
                let f = shred_fields(&bytes, 0);
                if p == MAX_DATA_PER_SLICE as u64 { big_shred = Some(s.clone()); } else if some_shred.is_none() || p == 64 { some_shred = Some(s.clone()); }
                built.push(Built { ch: Chan::Shred, bytes, summary: summary_shred(&s), what: format!("{} shred {} of a slice with {} payload bytes", if coding_only { "coding-only" } else { "regular" }, k, p), fields: f, class: if pi < 15 && k == first_pick { format!("shred{}-{}|{}", coding_only, if p < 128 { "small" } else if p >= 32704 { "full" } else { "mid" }, p) } else { String::new() } });
            }
        }
    }
    // every shard size of all four shredders (sizes only: AONT / PETS draw a random key)
    {
        let all_lens: Vec<u64> = if quick { (0..512u64).map(|k| 9 + k * 64).filter(|p| *p <= MAX_DATA_PER_SLICE as u64).step_by(8).chain([9u64, 63, 64, 32703, 32704, 32751, 32752, MAX_DATA_PER_SLICE as u64 - 16, MAX_DATA_PER_SLICE as u64]).collect() }
            else { (0..512u64).flat_map(|k| [k * 64 + 9, k * 64 + 63, k * 64 + 64]).filter(|p| *p >= 9 && *p <= MAX_DATA_PER_SLICE as u64).chain([MAX_DATA_PER_SLICE as u64 - 16, MAX_DATA_PER_SLICE as u64]).collect() };
        for p in all_lens {
            let slice = Slice { slot: Slot::new(3), slice_index: slice_index(0), is_last: true, parent: None, data: vec![0xAB; p as usize - 9] };
            let mut one = |name: &str, extra: usize, r: Result<[alpenglow::shredder::ValidatedShred; TOTAL_SHREDS], alpenglow::shredder::ShredError>| {
                if let Ok(shreds) = r {
                    for k in [0usize, 63] {
                        let s = shreds[k].as_shred();
                        let bytes = wincode::serialize(s).unwrap();
                        let dl = get64(&bytes, 29);
                        let pl = get64(&bytes, 37 + dl as usize + 64);
                        shard_cases.push((format!("{} shredder, payload {} bytes, shred {}", name, p, k), p + extra as u64, dl, pl, bytes.len() as u64));
                    }
                }
            };
            one("regular", MAX_DATA_PER_SLICE - RegularShredder::MAX_DATA_SIZE, catch_unwind(AssertUnwindSafe(|| RegularShredder::default().shred(&slice, &edk))).unwrap_or(Err(alpenglow::shredder::ShredError::TooMuchData)));
            one("coding-only", MAX_DATA_PER_SLICE - CodingOnlyShredder::MAX_DATA_SIZE, catch_unwind(AssertUnwindSafe(|| CodingOnlyShredder::default().shred(&slice, &edk))).unwrap_or(Err(alpenglow::shredder::ShredError::TooMuchData)));
            one("aont", MAX_DATA_PER_SLICE - AontShredder::MAX_DATA_SIZE, catch_unwind(AssertUnwindSafe(|| AontShredder::default().shred(&slice, &edk))).unwrap_or(Err(alpenglow::shredder::ShredError::TooMuchData)));
            one("pets", MAX_DATA_PER_SLICE - PetsShredder::MAX_DATA_SIZE, catch_unwind(AssertUnwindSafe(|| PetsShredder::default().shred(&slice, &edk))).unwrap_or(Err(alpenglow::shredder::ShredError::TooMuchData)));
        }
    }
    // ---------------- repair ----------------
    let mk_req = |sender: u64, t: &RepairRequestType| -> Option<RepairRequest> {
        // RepairRequest has private fields: assemble it through the real decoder and confirm the fields via Debug
        let mut b = sender.to_le_bytes().to_vec();
        b.extend_from_slice(&wincode::serialize(t).ok()?);
        let r = deserialize::<RepairRequest>(&b).ok()?;
        let d = format!("{:?}", r);
        if d.contains(&format!("ValidatorIndex({})", sender)) && d.contains(&format!("{:?}", t)) { Some(r) } else { None }
    };
    let mut reqtypes: Vec<RepairRequestType> = Vec::new();
    for (slot, si, hi) in [(0u64, 0u64, 0u64), (5, 1023, 63), (u64::MAX, 512, 31), (1 << 35, 1, 32)] {
        let bid = (Slot::new(slot), v2h(&rng.bytes(32)).into());
        reqtypes.push(RepairRequestType::LastSliceRoot(bid.clone()));
        reqtypes.push(RepairRequestType::SliceRoot(bid.clone(), slice_index(si)));
        reqtypes.push(RepairRequestType::Shred(bid, slice_index(si), ShredIndex::new(hi as usize).unwrap()));
    }
    for (i, t) in reqtypes.iter().enumerate() {
        let sender = *rng.pick(&[0u64, 3, 2047, u64::MAX]);
        if let Some(r) = mk_req(sender, t) {
            let bytes = wincode::serialize(&r).unwrap();
            let (mut f, _) = reqtype_fields(&bytes, 8);
            f.push(("u64", 0));
            built.push(Built { ch: Chan::Req, bytes, summary: vec![], what: format!("repair request #{} from {}", i, sender), fields: f, class: format!("req{}|{}", i % 3, i) });
        }
    }
    // responses: roots + proofs from real double-Merkle trees over 1..=1024 slices, shreds, nacks
    let slice_counts: Vec<usize> = if quick { vec![1, 2, 3, 512, 513, 1024] } else { vec![1, 2, 3, 4, 5, 8, 9, 16, 17, 100, 511, 512, 513, 1023, 1024] };
    for (i, k) in slice_counts.iter().copied().enumerate() {
        let roots: Vec<SliceRoot> = (0..k).map(|j| { let mut b = [0u8; 32]; b[..8].copy_from_slice(&(j as u64).to_le_bytes()); b[8] = i as u8; SliceRoot::from(v2h(&b)) }).collect();
        let tree = DoubleMerkleTree::new(roots.iter());
        let idx = k - 1;
        let proof: DoubleMerkleProof = tree.create_proof(idx);
        let t = &reqtypes[(3 * i) % reqtypes.len()];
        let t1 = &reqtypes[(3 * i + 1) % reqtypes.len()];
        for resp in [
            RepairResponse::LastSliceRoot(t.clone(), slice_index(idx as u64), roots[idx].clone(), proof.clone()),
            RepairResponse::SliceRoot(t1.clone(), roots[0].clone(), tree.create_proof(0)),
        ] {
            let bytes = wincode::serialize(&resp).unwrap();
            let (mut f, end) = reqtype_fields(&bytes, 4);
            f.push(("tag32", 0));
            let isl = matches!(resp, RepairResponse::LastSliceRoot(..));
            if isl { f.push(("slice", end)); }
            let o = end + if isl { 8 } else { 0 };
            f.push(("hash", o)); f.push(("veclen32", o + 32));
            built.push(Built { ch: Chan::Resp, bytes, summary: vec![], what: format!("repair response with a proof from a block of {} slices", k), fields: f, class: format!("resp-root{}-{}|{}", isl, if k <= 3 { "small" } else { "deep" }, k) });
        }
    }
    for (i, s) in [some_shred.clone(), big_shred.clone()].into_iter().flatten().enumerate() {
        let t = reqtypes[2 + 3 * (i % 4)].clone();
        let resp = RepairResponse::Shred(t, s);
        let bytes = wincode::serialize(&resp).unwrap();
        let (mut f, end) = reqtype_fields(&bytes, 4);
        f.push(("tag32", 0));
        f.extend(shred_fields(&bytes, end));
        built.push(Built { ch: Chan::Resp, bytes, summary: vec![], what: format!("repair response carrying a shred ({})", if i == 0 { "small" } else { "largest" }), fields: f, class: format!("resp-shred{}|", i) });
    }
    for t in reqtypes.iter().take(3) {
        let resp = RepairResponse::Nack(t.clone());
        let bytes = wincode::serialize(&resp).unwrap();
        let (mut f, _) = reqtype_fields(&bytes, 4);
        f.push(("tag32", 0));
        built.push(Built { ch: Chan::Resp, bytes, summary: vec![], what: "repair nack".to_string(), fields: f, class: "nack|".to_string() });
    }
    // ---------------- transactions ----------------
    for l in [0usize, 1, 2, 511, 512] {
        let tx = Transaction(rng.bytes(l));
        let bytes = wincode::serialize(&tx).unwrap();
        built.push(Built { ch: Chan::Tx, bytes, summary: vec![], what: format!("transaction with {} payload bytes", l), fields: vec![("veclen8", 0)], class: format!("tx{}|{}", l.min(3), l) });
    }

    // ---------------- run: built messages, their mutations, arbitrary byte strings ----------------
    let mut cid = 0u64;
    let mut emit = |ch: Chan, origin: Option<&Vec<u64>>, bytes: &[u8], d: String, mutation: &str, nontrivial: bool,
                    it: &mut cf::Interner, cases: &mut Vec<String>, descr: &mut Vec<String>, sigs: &mut Vec<(u64, u64, String)>,
                    stats: &mut Stats, seen: &mut HashSet<Vec<u8>>, dist: &mut HashMap<String, u64>, verdicts: &mut HashMap<String, u64>, cid: &mut u64| {
        let obs = observe_chan(ch, bytes);
        let table: Vec<String> = if ch == Chan::Consensus {
            blob_windows(bytes).iter().map(|w| { let (i, a) = blob_verdicts(w); format!("({}, {}, {})", it.hex(w), cf::b(i), cf::b(a)) }).collect()
        } else { Vec::new() };
        let nl = |v: &Vec<u64>| cf::list(&v.iter().map(|x| cf::n(*x)).collect::<Vec<_>>());
        let (otxt, verdict) = match &obs {
            Obs::Panic => ("IPanic".to_string(), "panic"),
            Obs::Err => ("IErr".to_string(), "err"),
            Obs::Ok { reenc, second, dbg_eq, trailing_rejected, prefix_rejected, summary } => (
                format!("(IOk {} {} {} {} {} {})", it.hex(reenc), cf::opt(second.as_ref().map(|s| it.hex(s))), cf::b(*dbg_eq), cf::b(*trailing_rejected), cf::b(*prefix_rejected), nl(summary)),
                if reenc.as_slice() == bytes { "ok-identical" } else { "ok-renormalised" },
            ),
        };
        let org = match origin { Some(s) => format!("(OBuilt {})", nl(s)), None => "OBytes".to_string() };
        let txt = format!("(C19 {} {} {} {} {} {})", cf::n(*cid), ch.coq(), org, cf::list(&table), it.hex(bytes), otxt);
        let mname = mutation.split('@').next().unwrap_or(mutation);
        sigs.push((*cid, 0, format!("wire:{}:{}:{}", ch.name(), mname, verdict)));
        if let Obs::Panic = obs { stats.harness_findings.push((*cid, format!("wire:{}:{}:panic", ch.name(), mname))); }
        stats.evaluations += 1;
        let mut key = bytes.to_vec(); key.push(ch as u8);
        if seen.insert(key) && nontrivial { stats.distinct_nontrivial += 1; }
        *dist.entry(format!("{}:{}", ch.name(), if origin.is_some() { "built" } else { "bytes" })).or_default() += 1;
        *verdicts.entry(format!("{}:{}", ch.name(), verdict)).or_default() += 1;
        if stats.samples.len() < 3 && *cid % 97 == 5 { stats.samples.push(format!("{} -- {}", d, txt.chars().take(500).collect::<String>())); }
        cases.push(txt); descr.push(format!("case {}: {}", *cid, d));
        *cid += 1;
    };
    let nbuilt = built.len();
    let mut mutated_classes: HashSet<String> = HashSet::new();
    for b in built.iter() {
        emit(b.ch, Some(&b.summary), &b.bytes, format!("built: {} ({} bytes)", b.what, b.bytes.len()), "built", false,
             &mut it, &mut cases, &mut descr, &mut sigs, &mut stats, &mut seen, &mut dist, &mut verdicts, &mut cid);
        // the mutation catalogue: on every base in the thorough tier, on a spread of bases in the quick tier
        let key = if quick { b.class.split('|').next().unwrap_or("").to_string() } else { b.class.clone() };
        let take = !b.class.is_empty() && mutated_classes.insert(key);
        if !take { continue; }
        for (name, bytes) in mutations(b, &mut rng, !quick) {
            if bytes.len() > 2 * MTU_BYTES + 64 { continue; }
            emit(b.ch, None, &bytes, format!("mutation {} of: {}", name, b.what), &name, true,
                 &mut it, &mut cases, &mut descr, &mut sigs, &mut stats, &mut seen, &mut dist, &mut verdicts, &mut cid);
        }
    }
    // arbitrary byte strings offered to every decoder (random, zeros, small integers)
    let narb = if quick { 40 } else { 800 };
    for k in 0..narb {
        for ch in [Chan::Consensus, Chan::Shred, Chan::Req, Chan::Resp, Chan::Tx] {
            let len = match k % 5 { 0 => rng.range(0, 40), 1 => rng.range(40, 200), 2 => rng.range(200, 900), 3 => rng.range(0, 1600), _ => rng.range(100, 160) } as usize;
            let mut bytes = match k % 3 { 0 => rng.bytes(len), 1 => vec![0u8; len], _ => (0..len).map(|_| (rng.below(3)) as u8).collect() };
            // plausible tags in front, so that decoding gets past the first field
            if k % 2 == 0 && bytes.len() >= 8 { put32(&mut bytes, 0, rng.below(5) as u32); put32(&mut bytes, 4, rng.below(6) as u32); }
            emit(ch, None, &bytes, format!("arbitrary {} bytes", bytes.len()), "arbitrary", true,
                 &mut it, &mut cases, &mut descr, &mut sigs, &mut stats, &mut seen, &mut dist, &mut verdicts, &mut cid);
        }
    }
    // shard sizes / shred lengths of all four shredders
    for (what, p, dl, pl, el) in shard_cases.iter() {
        let txt = format!("(C19Len {} {} {} {} {})", cf::n(cid), cf::n(*p), cf::n(*dl), cf::n(*pl), cf::n(*el));
        sigs.push((cid, 0, "wire:shred-length".to_string()));
        stats.evaluations += 1;
        *dist.entry("shred-length:sizes-only".to_string()).or_default() += 1;
        cases.push(txt); descr.push(format!("case {}: {}: data {} bytes, proof {} hashes, encoded {} bytes", cid, what, dl, pl, el));
        cid += 1;
    }
    // encoded length of every certificate type for every validator count 1..=MAX_SIGNERS (quick: around every word boundary)
    let mut cert_len_n: HashSet<u64> = HashSet::new();
    for n in 1..=max_signers {
        let r = n % 64;
        if quick && !(r == 63 || r == 0 || r == 1 || n <= 3) { continue; }
        cert_len_n.insert(n);
        for kind in 0..5u64 {
            let mixed = kind == 1 || kind == 2;
            for present in 1..=(if mixed && n >= 2 { 2u64 } else { 1 }) {
                let (s1, s2): (Vec<u64>, Vec<u64>) = if present == 2 { (vec![0], vec![n - 1]) } else if mixed && n % 2 == 0 { (vec![], vec![n - 1]) } else { (vec![n - 1], vec![]) };
                let Some(cert) = catch_unwind(AssertUnwindSafe(|| forge.cert(kind, 9, &hash_a, n, &s1, &s2, 1))).ok().flatten() else { continue };
                let len = wincode::serialize(&ConsensusMessage::Cert(cert)).unwrap().len() as u64;
                cases.push(format!("(C19CertLen {} {} {} {} {})", cf::n(cid), cf::n(kind), cf::n(n), cf::n(present), cf::n(len)));
                descr.push(format!("case {}: certificate kind {} over {} validators, {} aggregate(s): {} bytes", cid, kind, n, present, len));
                sigs.push((cid, 0, "wire:cert-length".to_string()));
                stats.evaluations += 1;
                *dist.entry("cert-length:sizes-only".to_string()).or_default() += 1;
                cid += 1;
            }
        }
    }
    stats.distinct_nontrivial += cert_len_n.len() as u64;
    let shard_sizes: HashSet<u64> = shard_cases.iter().map(|c| c.2).collect();
    stats.distinct_nontrivial += shard_sizes.len() as u64;

    // the decoder's bitmask cap must be exactly what MAX_SIGNERS needs
    if probe_max_signer_words() != alpenglow::crypto::aggsig::verif_max_signers().div_ceil(64) {
        stats.harness_findings.push((0, format!("wire:consensus:bitmask-cap-{}-words-differs-from-MAX_SIGNERS-{}", probe_max_signer_words(), alpenglow::crypto::aggsig::verif_max_signers())));
    }
    {
        let (judged, fs, skipped) = udp_receive_probe();
        for f in fs { stats.harness_findings.push((0, f)); }
        stats.distribution.push(("udp_receive_path_datagrams_judged".into(), match skipped { None => judged.to_string(), Some(r) => format!("{} (probe stopped: {})", judged, r) }));
    }
    stats.rule = format!("{} messages built by the crate's constructors (votes of 5 kinds with boundary slots / signer indices; certificates of 5 types over validator sets of 1,2,3,63,64,65,127,128,129,MAX-64,MAX-63,MAX-1,MAX (MAX = 64 * probed bitmask cap) and random sizes with signer subsets lowest / highest / all / random half / word boundaries and both halves of mixed certificates; regular and coding-only shreds for slice payloads hitting shard sizes 2..1024; repair requests, responses with double-Merkle proofs from blocks of 1..1024 slices, shred responses, nacks; transactions of 0..512 bytes), each encoded by wincode::serialize and decoded by network::deserialize; the mutation catalogue on the encodings (truncation, extension, doubling, enum tags, option tags, bool bytes, slice / shred indices at and beyond their bounds, vector lengths around the preallocation limit, num_bits / word count of the signer bitmask around 64*len and the {}-word cap, extra bitmask words, dead bits, BLS point corruption incl. infinity / compression flags); arbitrary byte strings per decoder; shred lengths of all four shredders for {} distinct shard sizes; encoded length of all five certificate types for {} validator counts in 1..={}; non-trivial = distinct byte string that is not a plain built message, plus distinct shard sizes and validator counts", nbuilt, probe_max_signer_words(), shard_sizes.len(), cert_len_n.len(), max_signers);
    let mut v: Vec<_> = dist.into_iter().collect(); v.sort();
    stats.distribution.push(("inputs".into(), v.iter().map(|(k, c)| format!("{}={}", k, c)).collect::<Vec<_>>().join(", ")));
    let mut v: Vec<_> = verdicts.into_iter().collect(); v.sort();
    stats.distribution.push(("verdicts".into(), v.iter().map(|(k, c)| format!("{}={}", k, c)).collect::<Vec<_>>().join(", ")));
    CaseSet { header: "From AG Require Import Model.Wire Oracle.C19.\n".to_string(), runner: "c19_run".to_string(), defs: it.defs, cases, descr, sigs, stats }
}
