//! C13 (and the blockstore part of C12 / C10): real shreds of generated blocks - honest shapes and
//! Byzantine-signed malformed / equivocating ones - are delivered to the real `BlockstoreImpl` in
//! generated orders; return values, events and queries are rendered for Model/Blockstore.v.
use std::collections::{HashMap, HashSet};
use std::panic::{AssertUnwindSafe, catch_unwind};

use alpenglow::consensus::{AddShredError, Blockstore, BlockstoreEvent, BlockstoreImpl};
use alpenglow::crypto::merkle::{DoubleMerkleTree, MerkleRoot, SliceRoot};
use alpenglow::crypto::signature::SecretKey;
use alpenglow::shredder::{RegularShredder, Shred, Shredder, TOTAL_SHREDS, ValidatedShred};
use alpenglow::types::{Slice, SliceIndex, SlicePayload, Slot};
use alpenglow::BlockId;
use tokio::sync::mpsc;

use crate::coqfmt as cf;
use crate::pool::{hash_of, id_of, r_bid};
use crate::rng::Rng;
use crate::{CaseSet, Stats, Tier};

fn slice_index(i: u64) -> SliceIndex {
    wincode::deserialize::<SliceIndex>(&i.to_le_bytes()).expect("slice index in range")
}

#[derive(Clone)]
pub struct SliceSpec {
    pub idx: u64,
    pub last: bool,
    pub parent: Option<(u64, u64)>,
    pub txs_ok: bool,
    pub salt: u64,
}

pub struct BuiltSlice {
    pub spec: SliceSpec,
    pub shreds: Vec<ValidatedShred>,
    pub root: SliceRoot,
    pub payload: SlicePayload,
    pub size: u64,
    pub data: Vec<u8>,
}

pub fn build_slice(rng: &mut Rng, slot: u64, sk: &SecretKey, spec: &SliceSpec) -> BuiltSlice {
    let ntx = rng.range(0, 3);
    let txs: Vec<Vec<u8>> = (0..ntx).map(|_| { let l = rng.range(1, 40) as usize; rng.bytes(l) }).collect();
    let mut data = if spec.txs_ok { wincode::serialize(&txs).unwrap() } else { let dl = rng.range(3, 30) as usize; let mut d = rng.bytes(dl); d[0] = 0xFF; d[1] = 0xFF; d[2] = 0xFF; d.extend_from_slice(&[0xFF; 8]); d };
    // make every slice distinct even with equal specs
    if spec.txs_ok { let mut t = txs.clone(); t.push(spec.salt.to_le_bytes().to_vec()); data = wincode::serialize(&t).unwrap(); }
    let parent: Option<BlockId> = spec.parent.map(|p| (Slot::new(p.0), hash_of(p.1)));
    let slice = Slice { slot: Slot::new(slot), slice_index: slice_index(spec.idx), is_last: spec.last, parent: parent.clone(), data: data.clone() };
    let mut shredder = RegularShredder::default();
    let shreds = shredder.shred(&slice, sk).expect("small slice").to_vec();
    let root = shreds[0].slice_root().clone();
    let pb = wincode::serialize(&(parent, data.clone())).unwrap();
    let payload = SlicePayload::try_from(pb.as_slice()).expect("payload");
    // Shred wire layout: tag u32 | slot u64 | slice u64 | is_last u8 | shred_index u64 | data len u64 | ...
    let wb = wincode::serialize(shreds[0].as_shred()).unwrap();
    let size = u64::from_le_bytes(wb[29..37].try_into().unwrap());
    BuiltSlice { spec: spec.clone(), shreds, root, payload, size, data }
}

/// The same slice content signed for ANOTHER slot (same slice root, same flags).
pub fn resign_slice_for_slot(b: &BuiltSlice, other_slot: u64, sk: &SecretKey) -> BuiltSlice {
    resign_slice(b, other_slot, sk, b.spec.last)
}

/// The same slice content signed a second time with another last-slice flag (same slice root).
pub fn resign_slice(b: &BuiltSlice, slot: u64, sk: &SecretKey, last: bool) -> BuiltSlice {
    let mut spec = b.spec.clone();
    spec.last = last;
    let parent: Option<BlockId> = spec.parent.map(|p| (Slot::new(p.0), hash_of(p.1)));
    let slice = Slice { slot: Slot::new(slot), slice_index: slice_index(spec.idx), is_last: last, parent: parent.clone(), data: b.data.clone() };
    let mut shredder = RegularShredder::default();
    let shreds = shredder.shred(&slice, sk).expect("small slice").to_vec();
    let root = shreds[0].slice_root().clone();
    assert!(root == b.root, "re-signed slice keeps its root");
    let pb = wincode::serialize(&(parent, b.data.clone())).unwrap();
    let payload = SlicePayload::try_from(pb.as_slice()).expect("payload");
    BuiltSlice { spec, shreds, root, payload, size: b.size, data: b.data.clone() }
}

#[derive(Clone)]
pub enum Deliver {
    Dissem(usize, usize, bool),      // (built slice, shred index, flip data/coding tag)
    Repair(u64, usize, usize),       // (block key (0 = the block's true hash), built slice, shred index)
    Own(usize),
}

struct Interner { roots: Vec<Vec<u8>> }
impl Interner {
    fn id(&mut self, r: &SliceRoot) -> u64 {
        let b = r.as_hash().as_ref().to_vec();
        if let Some(i) = self.roots.iter().position(|x| *x == b) { return i as u64 + 1; }
        self.roots.push(b); self.roots.len() as u64
    }
}

fn flip_tag(v: &ValidatedShred, pk: &alpenglow::crypto::signature::PublicKey) -> Option<ValidatedShred> {
    let mut b = wincode::serialize(v.as_shred()).ok()?;
    b[0] ^= 1;
    let s: Shred = wincode::deserialize(&b).ok()?;
    ValidatedShred::try_new(s, None, pk).ok()
}

pub struct RunOut { pub txt: String, pub events: (u64, u64, u64), pub panicked: bool, pub kinds: Vec<String>, pub hash_problem: Option<String> }

pub fn run_case(id: u64, slot: u64, built: &[BuiltSlice], dels: &[Deliver], sk: &SecretKey) -> RunOut {
    let rt = tokio::runtime::Builder::new_current_thread().enable_all().build().expect("rt");
    let (tx, mut rx) = mpsc::channel(4096);
    let mut bs = BlockstoreImpl::new(tx);
    let pk = sk.to_pk();
    let mut it = Interner { roots: Vec::new() };
    // content table: ground truth of what each signed root decodes to
    let mut content = Vec::new();
    for b in built {
        let rid = it.id(&b.root);
        let dec = format!("(DecOk {} {})", cf::opt(b.spec.parent.map(r_bid)), cf::b(b.spec.txs_ok));
        let e = format!("({}, {})", cf::n(rid), dec);
        if !content.contains(&e) { content.push(e); }
    }
    // candidate root lists for translating block hashes back into root-id lists
    let max_idx = built.iter().map(|b| b.spec.idx).max().unwrap_or(0);
    let mut per_idx: Vec<Vec<(u64, SliceRoot)>> = vec![Vec::new(); max_idx as usize + 1];
    for b in built { let rid = it.id(&b.root); if !per_idx[b.spec.idx as usize].iter().any(|x| x.0 == rid) { per_idx[b.spec.idx as usize].push((rid, b.root.clone())); } }
    let translate = |hash: &alpenglow::crypto::merkle::BlockHash| -> Option<Vec<u64>> {
        for len in 1..=per_idx.len() {
            let mut combos: Vec<Vec<(u64, SliceRoot)>> = vec![vec![]];
            for i in 0..len { let mut next = Vec::new(); for c in &combos { for r in &per_idx[i] { let mut c2 = c.clone(); c2.push(r.clone()); next.push(c2); } } combos = next; if combos.len() > 4096 { break; } }
            for c in combos {
                if c.len() != len { continue; }
                let roots: Vec<SliceRoot> = c.iter().map(|x| x.1.clone()).collect();
                if &DoubleMerkleTree::new(roots.iter()).get_root() == hash { return Some(c.iter().map(|x| x.0).collect()); }
            }
        }
        None
    };
    let r_hash = |h: &Option<Vec<u64>>| -> String { match h { Some(v) => cf::list(&v.iter().map(|x| cf::n(*x)).collect::<Vec<_>>()), None => "[999999%N]".to_string() } };
    let mut steps = Vec::new();
    let (mut nfirst, mut nblock, mut ninvalid) = (0u64, 0u64, 0u64);
    let mut panicked = false;
    let mut kinds = Vec::new();
    let mut hash_problem = None;
    for d in dels {
        let (op_txt, res): (String, std::thread::Result<Result<Option<alpenglow::consensus::BlockInfo>, AddShredError>>) = match d {
            Deliver::Dissem(si, k, flip) => {
                let b = &built[*si];
                let orig = &b.shreds[*k];
                let v = if *flip { match flip_tag(orig, &pk) { Some(v) => v, None => continue } } else { orig.clone() };
                kinds.push(if *flip { "dissem-tag-flipped" } else { "dissem" }.to_string());
                let txt = format!("(BDissem (mkBS {} {} {} {} {} {}))", cf::n(b.spec.idx), cf::b(b.spec.last), cf::n(it.id(&b.root)), cf::n(*k as u64), cf::b(v.is_data()), cf::n(b.size));
                let bsr = &mut bs; let rt2 = &rt;
                (txt, catch_unwind(AssertUnwindSafe(|| rt2.block_on(bsr.add_shred_from_dissemination(v)))))
            }
            Deliver::Repair(key, si, k) => {
                let b = &built[*si];
                let v = b.shreds[*k].clone();
                kinds.push("repair".to_string());
                // key 0: requested under the true hash of the (first-listed) slices 0..=last
                let mut roots: Vec<(u64, SliceRoot)> = Vec::new();
                let last_idx = built.iter().filter(|x| x.spec.last).map(|x| x.spec.idx).min().unwrap_or(0);
                for i in 0..=last_idx { if let Some(x) = built.iter().find(|x| x.spec.idx == i) { roots.push((it.id(&x.root), x.root.clone())); } }
                let true_hash = DoubleMerkleTree::new(roots.iter().map(|x| &x.1)).get_root();
                let (h, expected) = if *key == 0 { (true_hash, cf::list(&roots.iter().map(|x| cf::n(x.0)).collect::<Vec<_>>())) } else { (hash_of(*key), "[]".to_string()) };
                let txt = format!("(BRepair {} {} (mkBS {} {} {} {} {} {}))", cf::n(*key), expected, cf::n(b.spec.idx), cf::b(b.spec.last), cf::n(it.id(&b.root)), cf::n(*k as u64), cf::b(v.is_data()), cf::n(b.size));
                let bsr = &mut bs; let rt2 = &rt;
                (txt, catch_unwind(AssertUnwindSafe(|| rt2.block_on(bsr.add_shred_from_repair(h, v)))))
            }
            Deliver::Own(si) => {
                let b = &built[*si];
                kinds.push("own-slice".to_string());
                let arr: [ValidatedShred; TOTAL_SHREDS] = b.shreds.clone().try_into().ok().expect("64 shreds");
                let txt = format!("(BOwnSlice {} {} {} {})", cf::n(b.spec.idx), cf::b(b.spec.last), cf::n(it.id(&b.root)), cf::n(b.size));
                let bsr = &mut bs; let rt2 = &rt; let p = b.payload.clone();
                (txt, catch_unwind(AssertUnwindSafe(|| Ok(rt2.block_on(bsr.add_own_slice(p, Box::new(arr)))))))
            }
        };
        let mut evs = Vec::new();
        while let Ok(e) = rx.try_recv() {
            evs.push(match e {
                BlockstoreEvent::FirstShred(_) => { nfirst += 1; "BFirstShred".to_string() }
                BlockstoreEvent::InvalidBlock(_) => { ninvalid += 1; "BInvalidBlock".to_string() }
                BlockstoreEvent::Block { block_info, .. } => {
                    nblock += 1;
                    let h = translate(block_info.verif_hash());
                    if h.is_none() { hash_problem = Some("announced block hash is not the double-Merkle root of any combination of the disseminated slice roots".to_string()); }
                    let p = block_info.verif_parent();
                    format!("(BBlock {} {})", r_hash(&h), r_bid((p.0.inner(), id_of(&p.1))))
                }
            });
        }
        let ret = match &res {
            Err(_) => "BRPanic".to_string(),
            Ok(Ok(None)) => "(BROk None)".to_string(),
            Ok(Ok(Some(bi))) => { let p = bi.verif_parent(); format!("(BROk (Some ({}, {})))", r_hash(&translate(bi.verif_hash())), r_bid((p.0.inner(), id_of(&p.1)))) }
            Ok(Err(AddShredError::Duplicate)) => "(BRErr EDuplicate)".to_string(),
            Ok(Err(AddShredError::Equivocation)) => "(BRErr EEquivocation)".to_string(),
            Ok(Err(AddShredError::InvalidShred)) => "(BRErr EInvalidShred)".to_string(),
        };
        let is_panic = res.is_err();
        let obs = if is_panic { "(mkBObs None [])".to_string() } else {
            let dh = bs.disseminated_block_hash(Slot::new(slot)).map(|h| translate(h));
            let dh_txt = match dh { None => "None".to_string(), Some(h) => format!("(Some {})", r_hash(&h)) };
            format!("(mkBObs {} {})", dh_txt, "[]")
        };
        steps.push(format!("(mkBStep {} {} {} {})", op_txt, ret, cf::list(&evs), obs));
        if is_panic { panicked = true; break; }
    }
    let txt = format!("(BCase {} {} {} {})", cf::n(id), cf::n(slot), cf::list(&content), cf::list(&steps));
    RunOut { txt, events: (nfirst, nblock, ninvalid), panicked, kinds, hash_problem }
}

/// Block shapes: honest (1..6 slices, optional single optimistic handover) and Byzantine-signed ones.
pub fn block_shape(rng: &mut Rng, slot: u64) -> (Vec<SliceSpec>, &'static str) {
    let k = rng.range(1, 5);
    let p0 = (slot - 1 - rng.below(slot.min(2)), rng.range(1, 3));
    let mut specs: Vec<SliceSpec> = (0..k).map(|i| SliceSpec { idx: i, last: i + 1 == k, parent: if i == 0 { Some(p0) } else { None }, txs_ok: true, salt: rng.next() }).collect();
    let shape = match rng.below(19) {
        0..=4 => "honest",
        5 => { if k > 1 { let i = rng.range(1, k - 1) as usize; specs[i].parent = Some((p0.0.saturating_sub(1), 7)); } "honest-handover" }
        6 => { specs[0].parent = None; "first-slice-without-parent" }
        7 => { if k > 2 { specs[1].parent = Some((p0.0.saturating_sub(1), 7)); specs[2].parent = Some((p0.0.saturating_sub(1), 8)); "parent-switched-twice" } else { specs[0].parent = None; "first-slice-without-parent" } }
        8 => { if k > 1 { specs[1].parent = Some(p0); "parent-switched-to-same" } else { specs[0].txs_ok = false; "undecodable-data" } }
        9 => { let i = rng.below(k) as usize; specs[i].txs_ok = false; "undecodable-data" }
        10 => { specs[0].parent = Some((slot + rng.below(2), 3)); "parent-not-in-earlier-slot" }
        11 => { // conflicting slice: same index signed twice
                let i = rng.below(k) as usize; let mut c = specs[i].clone(); c.salt = rng.next(); specs.push(c); "conflicting-slice" }
        12 | 16 => { // contradictory last markers: an extra slice beyond the last / a second last
                if rng.chance(1, 2) { specs.push(SliceSpec { idx: k, last: false, parent: None, txs_ok: true, salt: rng.next() }); "non-last-slice-beyond-last" }
                else { specs.push(SliceSpec { idx: k, last: true, parent: None, txs_ok: true, salt: rng.next() }); "second-last-slice" } }
        13 => { // a conflicting version of a slice that shows up only after the block is complete
                let i = rng.below(k) as usize; let mut c = specs[i].clone(); c.salt = rng.next(); specs.push(c); "late-conflicting-slice" }
        14 => { // legitimate handover to ANOTHER block of the parent's slot (the previous leader equivocated)
                if k > 1 { let i = rng.range(1, k - 1) as usize; specs[i].parent = Some((p0.0, if p0.1 == 1 { 2 } else { 1 })); "honest-handover-same-slot" } else { "honest" } }
        15 => { // a later slice hands over to a parent that is not in an earlier slot
                if k > 1 { let i = rng.range(1, k - 1) as usize; specs[i].parent = Some((slot + rng.below(2), 3)); "handover-parent-not-in-earlier-slot" } else { specs[0].parent = Some((slot + rng.below(2), 3)); "parent-not-in-earlier-slot" } }
        17 => "honest-tag-flip",
        _ => { // the leader signs one slice of a multi-slice block a second time with the same content (same slice root) and
               // the opposite last flag; it shows up right after the first version of that slice was reconstructed
               if k > 1 { "resigned-slice-mid-block" } else { "honest" } }
    };
    (specs, shape)
}

pub fn deliveries(rng: &mut Rng, built: &[BuiltSlice], shape: &str) -> Vec<Deliver> {
    let mut dels = Vec::new();
    let nmain = if shape == "late-conflicting-slice" { built.len() - 1 } else { built.len() };
    for (si, _b) in built.iter().enumerate().take(nmain) {
        let mut idxs: Vec<usize> = (0..TOTAL_SHREDS).collect();
        rng.shuffle(&mut idxs);
        let take = match rng.below(6) { 0 => 32, 1 => 33, 2 => 64, 3 => rng.range(32, 64) as usize, 4 => rng.range(20, 40) as usize, _ => 40 };
        // structured subsets now and then
        if rng.chance(1, 6) { idxs = (0..TOTAL_SHREDS).collect(); if rng.chance(1, 2) { idxs.reverse(); } }
        for &k in idxs.iter().take(take) {
            dels.push(Deliver::Dissem(si, k, false));
            if rng.chance(1, 20) { dels.push(Deliver::Dissem(si, k, false)); }
        }
    }
    match rng.below(4) {
        0 => {}                                   // slice by slice
        1 => rng.shuffle(&mut dels),              // fully interleaved
        2 => { let n = dels.len(); for _ in 0..n / 4 { let i = rng.below(n as u64) as usize; let j = rng.below(n as u64) as usize; dels.swap(i, j); } }
        _ => { dels.reverse(); }
    }
    if shape == "non-last-slice-beyond-last" && rng.chance(2, 3) {
        // a FEW (not yet reconstructable) shreds of the slice beyond the declared last slice arrive before anything else
        let si = built.len() - 1;
        dels.retain(|d| !matches!(d, Deliver::Dissem(s, _, _) if *s == si));
        let mut idxs: Vec<usize> = (0..TOTAL_SHREDS).collect();
        rng.shuffle(&mut idxs);
        let first = rng.range(1, 31) as usize;
        let mut front: Vec<Deliver> = idxs.iter().take(first).map(|&k| Deliver::Dissem(si, k, false)).collect();
        front.extend(dels.drain(..));
        dels = front;
        // ... and sometimes more of them later
        if rng.chance(1, 2) { for &k in idxs.iter().skip(first).take(rng.range(1, 33) as usize) { dels.push(Deliver::Dissem(si, k, false)); } }
    }
    if shape == "late-conflicting-slice" {
        // the complete block first (every slice gets at least 32 shreds above), then shreds of the other version
        let si = built.len() - 1;
        let mut idxs: Vec<usize> = (0..TOTAL_SHREDS).collect();
        rng.shuffle(&mut idxs);
        let take = rng.range(1, 40) as usize;
        for &k in idxs.iter().take(take) { dels.push(Deliver::Dissem(si, k, false)); }
    }
    if shape == "honest-tag-flip" {
        // one honest shred with its unsigned data/coding tag flipped, somewhere after the first shred
        let pos = rng.range(1, dels.len() as u64 - 1) as usize;
        if let Deliver::Dissem(si, k, _) = dels[pos].clone() { dels[pos] = Deliver::Dissem(si, k, true); }
    }
    dels
}

pub fn gen_c13(seed: u64, tier: Tier) -> CaseSet {
    let mut rng = Rng::new(seed ^ 0xC13);
    let ncases = match tier { Tier::Quick => 160, Tier::Thorough => 4000 };
    let (mut cases, mut descr, mut sigs) = (Vec::new(), Vec::new(), Vec::new());
    let mut stats = Stats::default();
    let mut seen = HashSet::new();
    let mut shapes: HashMap<&'static str, u64> = Default::default();
    let mut kindc: HashMap<String, u64> = Default::default();
    let mut evc = (0u64, 0u64, 0u64);
    let mut panics = 0u64;
    let mut rk = rand::rng();
    let sk = SecretKey::new(&mut rk);
    for cid in 0..ncases as u64 {
        let slot = rng.range(2, 9);
        let (specs, shape) = block_shape(&mut rng, slot);
        *shapes.entry(shape).or_default() += 1;
        let mut built: Vec<BuiltSlice> = specs.iter().map(|s| build_slice(&mut rng, slot, &sk, s)).collect();
        let mut dels = deliveries(&mut rng, &built, shape);
        if shape == "resigned-slice-mid-block" {
            let n = built.len();
            let i = rng.below(n as u64 - 1) as usize;
            let flipped = !built[i].spec.last;
            let again = resign_slice(&built[i], slot, &sk, flipped);
            built.push(again);
            // slice i completely first, then a few shreds of its re-signed twin, then everything else
            let mut front: Vec<Deliver> = dels.iter().filter(|d| matches!(d, Deliver::Dissem(s, _, _) if *s == i)).cloned().collect();
            let rest: Vec<Deliver> = dels.iter().filter(|d| !matches!(d, Deliver::Dissem(s, _, _) if *s == i)).cloned().collect();
            let mut idxs: Vec<usize> = (0..TOTAL_SHREDS).collect();
            rng.shuffle(&mut idxs);
            for &k in idxs.iter().take(rng.range(1, 6) as usize) { front.push(Deliver::Dissem(n, k, false)); }
            front.extend(rest);
            dels = front;
        }
        // occasionally: the leader's own fast path instead, or a repaired copy next to the disseminated one
        let mode = rng.below(12);
        if mode == 0 && shape.starts_with("honest") && shape != "honest-tag-flip" {
            dels = (0..built.len()).map(Deliver::Own).collect();
        } else if mode == 1 {
            let key = rng.range(0, 2);
            let extra: Vec<Deliver> = dels.iter().filter_map(|d| if let Deliver::Dissem(si, k, false) = d { Some(Deliver::Repair(key, *si, *k)) } else { None }).collect();
            dels.extend(extra);
        }
        let out = run_case(cid, slot, &built, &dels, &sk);
        for (k, kd) in out.kinds.iter().enumerate() { sigs.push((cid, k as u64, format!("blockstore:{}:{}{}", shape, kd, if out.panicked && k + 1 == out.kinds.len() { ":panic" } else { "" }))); *kindc.entry(kd.clone()).or_default() += 1; }
        if let Some(p) = &out.hash_problem { stats.harness_findings.push((cid, format!("blockstore:{}:{}", shape, p))); }
        evc = (evc.0 + out.events.0, evc.1 + out.events.1, evc.2 + out.events.2);
        if out.panicked { panics += 1; }
        stats.evaluations += 1;
        if (out.events.1 > 0 || out.events.2 > 0) && seen.insert(out.txt.clone()) { stats.distinct_nontrivial += 1; }
        if stats.samples.is_empty() && out.events.1 > 0 { stats.samples.push(out.txt.chars().take(1500).collect()); }
        descr.push(format!("case {}: slot {}, shape {}, {} signed slices, {} deliveries, events first/block/invalid = {:?}", cid, slot, shape, built.len(), dels.len(), out.events));
        cases.push(out.txt);
    }
    stats.rule = "blocks of 1-5 small slices signed by a fresh leader key with the real RegularShredder: honest shapes (incl. one optimistic handover) and Byzantine-signed ones (one slice of a multi-slice block signed a second time with the same root and the opposite last flag right after its first version was reconstructed, first slice without parent, parent switched twice / to the same value, undecodable data, parent not in an earlier slot, conflicting slice, contradictory last markers, an honest shred with its unsigned data/coding tag flipped); per slice a subset of 20..64 shreds (32/33/64, random, structured) with duplicates, delivered slice by slice, interleaved, partially swapped or reversed; sometimes through the leader's own fast path or additionally through repair; non-trivial = a Block or InvalidBlock event occurred; distinct by full trace".into();
    let mut v: Vec<_> = shapes.into_iter().collect(); v.sort();
    stats.distribution.push(("block_shapes".into(), v.iter().map(|(k, c)| format!("{}={}", k, c)).collect::<Vec<_>>().join(", ")));
    let mut v: Vec<_> = kindc.into_iter().collect(); v.sort();
    stats.distribution.push(("operations".into(), v.iter().map(|(k, c)| format!("{}={}", k, c)).collect::<Vec<_>>().join(", ")));
    stats.distribution.push(("events(first,block,invalid)".into(), format!("{:?}", evc)));
    stats.distribution.push(("panics".into(), format!("{}", panics)));
    CaseSet { header: "From AG Require Import Model.Pool Model.Blockstore Oracle.C13.\n".to_string(), runner: "c13_run".to_string(), defs: Vec::new(), cases, descr, sigs, stats }
}
