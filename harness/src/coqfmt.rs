//! Rendering of values as Coq terms for case files.
pub fn n(x: u64) -> String {
    format!("{}%N", x)
}
pub fn nat(x: usize) -> String {
    format!("{}%nat", x)
}
pub fn b(x: bool) -> String {
    (if x { "true" } else { "false" }).to_string()
}
pub fn hex(bytes: &[u8]) -> String {
    let mut s = String::with_capacity(bytes.len() * 2 + 10);
    s.push('"');
    for byte in bytes {
        s.push_str(&format!("{:02x}", byte));
    }
    s.push_str("\"%string");
    s
}
pub fn hexraw(bytes: &[u8]) -> String {
    bytes.iter().map(|b| format!("{:02x}", b)).collect()
}
pub fn list<T: AsRef<str>>(items: &[T]) -> String {
    let mut s = String::from("[");
    for (i, it) in items.iter().enumerate() {
        if i > 0 {
            s.push_str("; ");
        }
        s.push_str(it.as_ref());
    }
    s.push(']');
    s
}
pub fn opt(x: Option<String>) -> String {
    match x {
        Some(v) => format!("(Some {})", v),
        None => "None".to_string(),
    }
}
pub fn pair(a: &str, b: &str) -> String {
    format!("({}, {})", a, b)
}
