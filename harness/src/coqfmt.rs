//! Rendering of values as Coq terms for case files.
pub fn n(x: u64) -> String {
    format!("{}%N", x)
}
pub fn nat(x: usize) -> String {
    format!("{}%nat", x)
}
pub fn b(x: bool) -> String {
    (if x { "true" } else { "false" }).to_string()
}
pub fn hex(bytes: &[u8]) -> String {
    let mut s = String::with_capacity(bytes.len() * 2 + 10);
    s.push('"');
    for byte in bytes {
        s.push_str(&format!("{:02x}", byte));
    }
    s.push_str("\"%string");
    s
}
pub fn hexraw(bytes: &[u8]) -> String {
    bytes.iter().map(|b| format!("{:02x}", b)).collect()
}
pub fn list<T: AsRef<str>>(items: &[T]) -> String {
    let mut s = String::from("[");
    for (i, it) in items.iter().enumerate() {
        if i > 0 {
            s.push_str("; ");
        }
        s.push_str(it.as_ref());
    }
    s.push(']');
    s
}
pub fn opt(x: Option<String>) -> String {
    match x {
        Some(v) => format!("(Some {})", v),
        None => "None".to_string(),
    }
}
pub fn pair(a: &str, b: &str) -> String {
    format!("({}, {})", a, b)
}

/// Interns long byte strings as top-level Coq definitions (`hx17`) so that case files stay
/// small: Coq's string-literal parsing is the bottleneck of the correspondence check.
#[derive(Default)]
pub struct Interner {
    map: std::collections::HashMap<Vec<u8>, usize>,
    pub defs: Vec<String>,
}

impl Interner {
    pub fn hex(&mut self, bytes: &[u8]) -> String {
        if bytes.len() < 8 {
            return hex(bytes);
        }
        if let Some(i) = self.map.get(bytes) {
            return format!("hx{}", i);
        }
        let i = self.defs.len();
        self.map.insert(bytes.to_vec(), i);
        self.defs.push(format!("Definition hx{} := {}.", i, hex(bytes)));
        format!("hx{}", i)
    }
}
