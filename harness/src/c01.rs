//! C01 (node-level tie): drives the real `Votor` (cfg hooks) with event sequences built to make a node
//! break one of the voting rules the safety proof rests on (Model/Safety.v R0-R6):
//! a second initial vote in a slot, a finalization vote without own notarization / without the
//! notarization certificate / in a "bad" slot, fallback or skip votes after finalization, a
//! notarization vote on a parent that was never announced ready (first slot of a window) or that the
//! node did not notarize itself (later slots), fallback votes without the pool's SafeTo* event, votes
//! for pruned slots or the genesis slot.  The broadcast log is judged by Oracle/C01.v (flag 2) and
//! compared with the Votor model step by step (flag 1).
use std::collections::{HashMap, HashSet};

use crate::pool::{self, CK, VK};
use crate::poolgen::{KeyRing, stake_family};
use crate::rng::Rng;
use crate::votor::{PE, VIn, run_case, scenario};
use crate::{CaseSet, Stats, Tier};

const SPW: u64 = pool::SLOTS_PER_WINDOW;

fn h(slot: u64, k: u64) -> u64 {
    slot * 10 + k
}

fn cert(slot: u64, kind: CK, hash: u64) -> VIn {
    VIn::Pool(PE::Cert { slot, kind, hash })
}

/// a plausible opening of window `w`: parent announced, first block delivered (node notarizes it)
fn open_window(w: u64, parent: (u64, u64), out: &mut Vec<VIn>) -> (u64, u64) {
    out.push(VIn::Pool(PE::ParentReady(w, parent)));
    out.push(VIn::FirstShred(w));
    out.push(VIn::Block(w, h(w, 1), parent));
    (w, h(w, 1))
}

/// attack templates; each targets the rule named in its label
fn template(rng: &mut Rng, which: u64, w: u64, prev: (u64, u64)) -> (&'static str, Vec<VIn>) {
    let mut v = Vec::new();
    match which {
        0 => {
            // R1: time-out first (skip votes for the whole window), then the blocks and their certificates arrive
            v.push(VIn::Pool(PE::ParentReady(w, prev)));
            v.push(if rng.chance(1, 2) { VIn::Timeout(w + rng.below(SPW)) } else { VIn::TimeoutCrashed(w) });
            v.push(VIn::Block(w, h(w, 1), prev));
            v.push(cert(w, CK::Notar, h(w, 1)));
            v.push(VIn::Block(w + 1, h(w + 1, 1), (w, h(w, 1))));
            v.push(cert(w + 1, CK::Notar, h(w + 1, 1)));
            v.push(VIn::Timeout(w));
            ("R1:block-after-timeout", v)
        }
        1 => {
            // R1: crashed-leader time-out with / without a first shred, then the block
            if rng.chance(1, 2) { v.push(VIn::FirstShred(w)); }
            v.push(VIn::Pool(PE::ParentReady(w, prev)));
            v.push(VIn::TimeoutCrashed(w));
            v.push(VIn::Block(w, h(w, 1), prev));
            v.push(VIn::Timeout(w));
            v.push(VIn::Block(w, h(w, 2), prev));
            ("R1:crashed-leader-then-block", v)
        }
        2 => {
            // R6: several ready parents, blocks naming a parent that is not (yet) ready
            let other = (prev.0.saturating_sub(1), h(prev.0.saturating_sub(1), 2));
            v.push(VIn::Pool(PE::ParentReady(w, prev)));
            if rng.chance(1, 2) { v.push(VIn::Pool(PE::ParentReady(w, (prev.0, prev.1 + 1)))); }
            v.push(VIn::Block(w, h(w, 3), other));                    // parent never announced: pending
            if rng.chance(1, 2) { v.push(VIn::Block(w, h(w, 1), prev)); }  // a proper block
            if rng.chance(1, 2) { v.push(VIn::Pool(PE::ParentReady(w, other))); }
            v.push(VIn::Pool(PE::ParentReady(w + SPW, other)));       // ready for ANOTHER window only
            v.push(VIn::Block(w, h(w, 4), (w - 1, 7)));
            ("R6:unannounced-parent", v)
        }
        3 => {
            // R3: everything that may follow a finalization vote
            let b = open_window(w, prev, &mut v);
            v.push(cert(w, CK::Notar, b.1));
            v.push(VIn::Pool(PE::SafeToNotar((w, b.1 + 1))));
            v.push(VIn::Pool(PE::SafeToSkip(w)));
            v.push(VIn::Timeout(w));
            v.push(VIn::InvalidBlock(w));
            v.push(VIn::Block(w, b.1 + 1, prev));
            v.push(cert(w, CK::Notar, b.1));
            ("R3:after-final", v)
        }
        4 => {
            // R2 (bad window): fallback vote first, notarization certificate afterwards
            let b = open_window(w, prev, &mut v);
            if rng.chance(1, 2) { v.push(VIn::Pool(PE::SafeToSkip(w))); } else { v.push(VIn::Pool(PE::SafeToNotar((w, b.1 + 1)))); }
            v.push(cert(w, CK::Notar, b.1));
            v.push(VIn::Block(w + 1, h(w + 1, 1), b));
            v.push(cert(w + 1, CK::Notar, h(w + 1, 1)));
            ("R2:bad-window-then-cert", v)
        }
        5 => {
            // R2: certificate for another block of the slot, certificate before the block, certificate without a vote
            if rng.chance(1, 2) { v.push(cert(w, CK::Notar, h(w, 1))); }
            let b = open_window(w, prev, &mut v);
            v.push(cert(w, CK::Notar, b.1 + 1));
            v.push(cert(w, CK::NotarFb, b.1));
            v.push(cert(w, CK::FastFinal, b.1 + 1));
            v.push(cert(w + 1, CK::Notar, h(w + 1, 1)));
            if rng.chance(1, 2) { v.push(cert(w, CK::Notar, b.1)); }
            ("R2:certificate-for-other-block", v)
        }
        6 => {
            // R6 (later slots): child of a block the node did not notarize, parent in a non-adjacent slot
            let b = open_window(w, prev, &mut v);
            v.push(VIn::Block(w + 1, h(w + 1, 2), (w, b.1 + 1)));
            v.push(VIn::Block(w + 2, h(w + 2, 1), b));
            v.push(VIn::Block(w + 1, h(w + 1, 1), b));
            v.push(VIn::Block(w + 2, h(w + 2, 2), (w + 1, h(w + 1, 2))));
            v.push(VIn::Block(w + 2, h(w + 2, 3), (w + 1, h(w + 1, 1))));
            ("R6:foreign-parent-in-window", v)
        }
        7 => {
            // pruning: a finalization certificate for a later window, then everything old is delivered again
            let b = open_window(w, prev, &mut v);
            v.push(VIn::Block(w + 1, h(w + 1, 1), b));
            let fin = w + SPW + rng.below(SPW);
            v.push(cert(fin, if rng.chance(1, 2) { CK::Final } else { CK::FastFinal }, h(fin, 1)));
            v.push(VIn::Block(w + 2, h(w + 2, 1), (w + 1, h(w + 1, 1))));
            v.push(VIn::Timeout(w + 2));
            v.push(VIn::Pool(PE::SafeToNotar((w + 1, 9))));
            v.push(VIn::Pool(PE::SafeToSkip(w)));
            v.push(cert(w, CK::Notar, b.1));
            v.push(VIn::Pool(PE::ParentReady(w, prev)));
            v.push(VIn::Block(w, h(w, 5), prev));
            // slots of the finalized window at or below the certificate, and above it
            v.push(VIn::Timeout(fin));
            v.push(VIn::Block(fin + 1, h(fin + 1, 1), (fin, h(fin, 1))));
            v.push(VIn::Timeout(fin + 1));
            v.push(VIn::InvalidBlock((fin / SPW) * SPW));
            ("prune:redelivery", v)
        }
        8 => {
            // children before parents: pending blocks released by ParentReady / by the parent's vote
            v.push(VIn::Block(w + 1, h(w + 1, 1), (w, h(w, 1))));
            v.push(VIn::Block(w + 2, h(w + 2, 1), (w + 1, h(w + 1, 1))));
            v.push(VIn::Block(w, h(w, 1), prev));
            if rng.chance(1, 3) { v.push(VIn::Timeout(w + 2)); }
            v.push(VIn::Pool(PE::ParentReady(w, prev)));
            v.push(VIn::Block(w + 1, h(w + 1, 2), (w, h(w, 1))));
            ("R6:children-before-parents", v)
        }
        9 => {
            // genesis window: slot 0 is never voted, genesis is the only acceptable parent of slot 1
            v.push(VIn::Block(1, h(1, 2), (0, 1)));
            v.push(VIn::Pool(PE::SafeToNotar((0, 5))));
            v.push(VIn::Pool(PE::SafeToSkip(0)));
            v.push(VIn::Timeout(0));
            v.push(VIn::Block(0, 3, (0, 0)));
            v.push(VIn::Pool(PE::ParentReady(0, (0, 0))));
            v.push(VIn::Block(1, h(1, 1), (0, 0)));
            v.push(VIn::Block(2, h(2, 1), (1, h(1, 1))));
            v.push(cert(0, CK::Notar, 0));
            v.push(VIn::InvalidBlock(0));
            ("R0:genesis-slot", v)
        }
        10 => {
            // R1: two blocks of a slot, the second after the vote; a skip-window in the middle of a window
            let b = open_window(w, prev, &mut v);
            v.push(VIn::Block(w, b.1 + 1, prev));
            v.push(VIn::InvalidBlock(w + 1));
            v.push(VIn::Block(w + 1, h(w + 1, 1), b));
            v.push(cert(w, CK::Notar, b.1));
            v.push(cert(w + 1, CK::Notar, h(w + 1, 1)));
            ("R1:equivocating-leader", v)
        }
        _ => {
            // standstill bundle carrying arbitrary (even conflicting) own votes: forwarded, decides nothing
            let b = open_window(w, prev, &mut v);
            v.push(VIn::Pool(PE::Standstill(w, vec![(w, CK::Notar, b.1 + 1)], vec![(w, VK::Skip, 0), (w, VK::Notar, b.1 + 1), (w, VK::Final, 0)])));
            v.push(cert(w, CK::Notar, b.1));
            v.push(VIn::Pool(PE::SafeToSkip(w)));
            ("standstill:conflicting-bundle", v)
        }
    }
}

fn kind_of(i: &VIn) -> &'static str {
    match i {
        VIn::Pool(PE::ParentReady(..)) => "parentready",
        VIn::Pool(PE::SafeToNotar(_)) => "safetonotar",
        VIn::Pool(PE::SafeToSkip(_)) => "safetoskip",
        VIn::Pool(PE::Cert { .. }) => "cert",
        VIn::Pool(PE::Standstill(..)) => "standstill",
        VIn::FirstShred(_) => "shred",
        VIn::InvalidBlock(_) => "invalid",
        VIn::Block(..) => "block",
        VIn::Timeout(_) => "timeout",
        VIn::TimeoutCrashed(_) => "timeout-crashed",
    }
}

pub fn gen_c01(seed: u64, tier: Tier) -> CaseSet {
    let mut rng = Rng::new(seed ^ 0xC01);
    let mut ring = KeyRing::new();
    let ncases = match tier { Tier::Quick => 900, Tier::Thorough => 20000 };
    let (mut cases, mut descr, mut sigs) = (Vec::new(), Vec::new(), Vec::new());
    let mut stats = Stats::default();
    let mut seen = HashSet::new();
    let mut label_count: HashMap<String, u64> = HashMap::new();
    let mut kind_count: HashMap<&'static str, u64> = HashMap::new();
    let (mut total_votes, mut panics) = (0usize, 0u64);
    for cid in 0..ncases as u64 {
        let (mut stakes, _fam) = stake_family(&mut rng);
        stakes.truncate(6);
        let own = rng.below(stakes.len() as u64);
        // 1-3 attack templates on consecutive windows, optionally followed by a random "story"
        let mut ins: Vec<VIn> = Vec::new();
        let mut labels: Vec<&'static str> = Vec::new();
        let nt = rng.range(1, 3);
        let first_w = if rng.chance(1, 4) { 0 } else { SPW * rng.range(1, 2) };
        let mut prev: (u64, u64) = if first_w == 0 { (0, 0) } else if rng.chance(1, 2) { (0, 0) } else { (first_w - 1, h(first_w - 1, 1)) };
        for k in 0..nt {
            let w = first_w + k * SPW;
            let which = if w == 0 { 9 } else { let x = rng.below(12); if x == 9 { 3 } else { x } };
            let (label, mut evs) = template(&mut rng, which, w.max(if which == 9 { 0 } else { SPW }), prev);
            labels.push(label);
            // local disorder inside the template: swap neighbours, duplicate an event, drop an event
            let n = evs.len();
            for _ in 0..rng.below(3) {
                let i = rng.below(n as u64) as usize;
                let j = (i + 1).min(n - 1);
                evs.swap(i, j);
            }
            if rng.chance(1, 3) { let i = rng.below(evs.len() as u64) as usize; let e = evs[i].clone(); evs.push(e); }
            if rng.chance(1, 6) && evs.len() > 2 { let i = rng.below(evs.len() as u64) as usize; evs.remove(i); }
            ins.extend(evs);
            prev = (w.max(SPW) + 1, h(w.max(SPW) + 1, 1));
        }
        if rng.chance(1, 3) {
            labels.push("story");
            ins.extend(scenario(&mut rng));
        }
        // re-delivery of earlier events at the end (duplication / late arrival)
        for _ in 0..rng.below(4) {
            let i = rng.below(ins.len() as u64) as usize;
            let e = ins[i].clone();
            ins.push(e);
        }
        let keys = ring.get(stakes.len());
        let (txt, nvotes, panicked, _kinds) = run_case(keys, cid, &stakes, own, &ins);
        let label = labels.join("+");
        for (k, i) in ins.iter().enumerate() {
            let kd = kind_of(i);
            *kind_count.entry(kd).or_default() += 1;
            sigs.push((cid, k as u64, format!("c01:{}:{}", labels[0], kd)));
        }
        for l in &labels { *label_count.entry(l.to_string()).or_default() += 1; }
        total_votes += nvotes;
        if panicked { panics += 1; }
        stats.evaluations += 1;
        if nvotes >= 1 && seen.insert(txt.clone()) { stats.distinct_nontrivial += 1; }
        if stats.samples.len() < 2 && nvotes >= 3 { stats.samples.push(txt.chars().take(1800).collect()); }
        descr.push(format!("case {}: {} | {} validators, own {}, {} events, {} own votes{}", cid, label, stakes.len(), own, ins.len(), nvotes, if panicked { ", PANIC" } else { "" }));
        cases.push(txt);
    }
    stats.rule = "real Votor driven event by event (cfg hooks) with 1-3 rule-breaking templates on consecutive leader windows (block after time-out, crashed-leader time-out, unannounced / several ready parents, everything after a finalization vote, fallback vote before the notarization certificate, certificates for another block or without a vote, foreign parent inside a window, finalization of a later window then re-delivery of everything old, children before parents, genesis slot, equivocating leader, conflicting standstill bundle), each locally disordered (neighbour swaps, duplicated / dropped events), optionally followed by a random C05-style story, then late re-deliveries; non-trivial = the node cast at least one vote; distinct by full trace".into();
    let mut lc: Vec<_> = label_count.into_iter().collect(); lc.sort();
    stats.distribution.push(("templates".into(), lc.iter().map(|(k, c)| format!("{}={}", k, c)).collect::<Vec<_>>().join(", ")));
    let mut kc: Vec<_> = kind_count.into_iter().collect(); kc.sort();
    stats.distribution.push(("event_kinds".into(), kc.iter().map(|(k, c)| format!("{}={}", k, c)).collect::<Vec<_>>().join(", ")));
    stats.distribution.push(("own_votes_total".into(), format!("{}", total_votes)));
    stats.distribution.push(("votor_panics".into(), format!("{}", panics)));
    CaseSet {
        header: "From AG Require Import Model.Pool Model.Votor Oracle.VotorRun Oracle.C01.\n".to_string(),
        runner: "c01_run".to_string(),
        defs: Vec::new(),
        cases, descr, sigs, stats,
    }
}
