//! C15: Merkle proofs.  Generates trees and verification queries, runs the real
//! `MerkleTree`, and renders cases for the Coq model/oracle (Oracle/C15.v).
use std::collections::HashSet;

use alpenglow::crypto::Hash;
use alpenglow::crypto::merkle::PlainMerkleTree;

use crate::coqfmt as cf;
use crate::rng::Rng;
use crate::{CaseSet, Stats, Tier};

pub const KINDS: [&str; 15] = [
    "honest", "wrong-leaf", "wrong-index-in-width", "alias-index-beyond-width",
    "proof-element-corrupted", "proof-truncated", "proof-extended", "root-mutated",
    "padded-position", "inner-node-as-leaf", "random-proof-of-length", "honest-last-explicit-empties",
    "last-proof-of-canonical-empty-roots",
    "maximal-last-proof-of-synthetic-root",
    "maximal-last-proof-lengthened",
];

struct Query {
    kind: usize,
    leaf: Vec<u8>,
    idx: u64,
    root: Option<Vec<u8>>,
    proof: Vec<Vec<u8>>,
    chk: bool,
    last: bool,
    panicked: bool,
}

fn h2v(h: &Hash) -> Vec<u8> {
    h.as_ref().to_vec()
}

fn v2h(v: &[u8]) -> Hash {
    // Hash has no public constructor from bytes; go through wincode (32 raw bytes).
    wincode::deserialize::<Hash>(v).expect("32 bytes decode to a Hash")
}

fn run_query(q: &mut Query, tree_root: &Hash) {
    let root = match &q.root {
        Some(r) => v2h(r),
        None => tree_root.clone(),
    };
    let proof: Vec<Hash> = q.proof.iter().map(|p| v2h(p)).collect();
    // a panic of the verifier is a finding of its own (hostile proofs must be rejected, not crash the task)
    let r1 = std::panic::catch_unwind(std::panic::AssertUnwindSafe(|| PlainMerkleTree::check_proof(&q.leaf, q.idx as usize, &root, &proof)));
    let r2 = std::panic::catch_unwind(std::panic::AssertUnwindSafe(|| PlainMerkleTree::check_proof_last(&q.leaf, q.idx as usize, &root, &proof)));
    q.panicked = r1.is_err() || r2.is_err();
    q.chk = r1.unwrap_or(false);
    q.last = r2.unwrap_or(false);
}

fn leaf_count(rng: &mut Rng, tier: Tier, i: usize, ncases: usize) -> usize {
    // one LARGE tree per run (two in the thorough tier): more than 2^15 leaves (more than 2^16 nodes), far beyond the
    // trees the protocol builds - internal offsets and level tables must not be narrower than the leaf count allows
    if i + 1 == ncases { return 32_769; }
    if i + 2 == ncases && matches!(tier, Tier::Thorough) { return 65_537; }
    let small: [usize; 24] = [1, 2, 3, 4, 5, 6, 7, 8, 9, 11, 12, 13, 15, 16, 17, 23, 31, 32, 33, 40, 63, 64, 65, 100];
    if i < small.len() {
        return small[i];
    }
    match tier {
        Tier::Quick => rng.range(1, 70) as usize,
        Tier::Thorough => {
            let big = [127usize, 128, 129, 255, 256, 257, 511, 512, 513, 1023, 1024, 1025];
            if rng.chance(1, 6) { *rng.pick(&big) } else { rng.range(1, 300) as usize }
        }
    }
}

pub fn generate(seed: u64, tier: Tier) -> CaseSet {
    let mut rng = Rng::new(seed ^ 0xC15);
    let ncases = match tier { Tier::Quick => 60, Tier::Thorough => 600 };
    let mut cases = Vec::new();
    let mut it = cf::Interner::default();
    let mut descr = Vec::new();
    let mut sigs = Vec::new();
    let mut stats = Stats::default();
    let mut seen: HashSet<String> = HashSet::new();
    let mut kind_count = [0u64; 15];
    let mut verdict_count = [0u64; 4];
    let mut sizes: Vec<usize> = Vec::new();
    for cid in 0..ncases {
        let n = leaf_count(&mut rng, tier, cid, ncases);
        sizes.push(n);
        // leaves: short random data; some explicitly empty (also trailing), some exactly 32 bytes
        let mut leaves: Vec<Vec<u8>> = (0..n)
            .map(|_| {
                let r = rng.below(10);
                if r == 0 { vec![] } else if r == 1 { rng.bytes(32) } else { let l = rng.range(1, 40) as usize; rng.bytes(l) }
            })
            .collect();
        if n > 4096 {
            // large trees: distinct 3-byte leaves (cheap to hash and to print)
            for (k, l) in leaves.iter_mut().enumerate() { *l = vec![k as u8, (k >> 8) as u8, (k >> 16) as u8]; }
        }
        if rng.chance(1, 5) {
            // trailing explicit empties: the "last" leaf is then not the final index
            let k = rng.range(1, 3.min(n as u64)) as usize;
            for j in 0..k { if n - 1 - j > 0 { leaves[n - 1 - j] = vec![]; } }
        }
        let tree = PlainMerkleTree::new(&leaves);
        let root = tree.get_root();
        let ht = tree.height();
        // created proofs: all indices for small trees, a sample otherwise
        let idxs: Vec<usize> = if n <= 20 { (0..n).collect() } else {
            let mut v = vec![0, n - 1, n / 2];
            for _ in 0..5 { v.push(rng.below(n as u64) as usize); }
            v.sort(); v.dedup(); v
        };
        let mut proofs_txt = Vec::new();
        let mut queries: Vec<Query> = Vec::new();
        for &i in &idxs {
            let p = tree.create_proof(i);
            let pv: Vec<Vec<u8>> = p.iter().map(h2v).collect();
            proofs_txt.push(cf::pair(&cf::n(i as u64), &cf::list(&pv.iter().map(|x| it.hex(x)).collect::<Vec<_>>())));
            queries.push(Query { kind: 0, leaf: leaves[i].clone(), idx: i as u64, root: None, proof: pv.clone(), chk: false, last: false, panicked: false });
            // mutations of the honest proof
            let nm = if n <= 20 { 3 } else { 6 };
            for _ in 0..nm {
                let kind = rng.range(1, 10) as usize;
                let mut q = Query { kind, leaf: leaves[i].clone(), idx: i as u64, root: None, proof: pv.clone(), chk: false, last: false, panicked: false };
                match kind {
                    1 => {
                        if rng.chance(1, 2) && n > 1 { let j = (i + 1 + rng.below(n as u64 - 1) as usize) % n; q.leaf = leaves[j].clone(); }
                        else if q.leaf.is_empty() { q.leaf = vec![0]; } else { let k = rng.below(q.leaf.len() as u64) as usize; q.leaf[k] ^= 1 << rng.below(8); }
                    }
                    2 => { let w = 1u64 << ht; if w > 1 { q.idx = (q.idx + 1 + rng.below(w - 1)) % w; } else { q.kind = 3; q.idx += 1; } }
                    3 => {
                        // structured aliases: i + k * 2^h for h at / above / below the proof width, and large values
                        let h = match rng.below(4) { 0 => ht as u64, 1 => ht as u64 + 1, 2 => 20, _ => rng.range(ht as u64, 40) };
                        let k = rng.range(1, 5);
                        q.idx = q.idx.wrapping_add(k << h.min(62));
                    }
                    4 => { if !q.proof.is_empty() { let e = rng.below(q.proof.len() as u64) as usize; let b = rng.below(32) as usize; q.proof[e][b] ^= 1 << rng.below(8); } else { q.kind = 6; q.proof.push(rng.bytes(32)); } }
                    5 => { if !q.proof.is_empty() { if rng.chance(1, 2) { q.proof.remove(0); } else { q.proof.pop(); } } else { q.kind = 6; q.proof.push(rng.bytes(32)); } }
                    6 => {
                        let extra = if rng.chance(1, 2) { rng.bytes(32) } else { h2v(&root) };
                        if rng.chance(1, 2) { q.proof.push(extra); } else { q.proof.insert(0, extra); }
                    }
                    7 => { let mut r = h2v(&root); let b = rng.below(32) as usize; r[b] ^= 1 << rng.below(8); q.root = Some(r); }
                    8 => {
                        // padded position: rebuild with explicit empty leaves up to the width, take that tree's proof
                        let w = 1usize << ht;
                        if w > n {
                            let mut full = leaves.clone();
                            full.resize(w, vec![]);
                            let t2 = PlainMerkleTree::new(&full);
                            let j = n + rng.below((w - n) as u64) as usize;
                            q.idx = j as u64;
                            q.leaf = if rng.chance(3, 4) { vec![] } else { vec![7] };
                            q.proof = t2.create_proof(j).iter().map(h2v).collect();
                            if t2.get_root() != root { q.root = Some(h2v(&t2.get_root())); q.kind = 7; }
                        } else { q.kind = 0; }
                    }
                    9 => {
                        // an inner node offered as a leaf with the shortened proof
                        if pv.len() >= 1 {
                            let lvl = rng.range(1, pv.len() as u64) as usize;
                            let inner = PlainMerkleTree::derive_root(&leaves[i], i, &pv[..lvl].iter().map(|x| v2h(x)).collect::<Vec<_>>());
                            q.leaf = h2v(&inner);
                            q.idx = (i >> lvl) as u64;
                            q.proof = pv[lvl..].to_vec();
                        } else { q.kind = 6; q.proof.push(rng.bytes(32)); }
                    }
                    _ => {
                        let l = rng.range(0, 33) as usize;
                        q.proof = (0..l).map(|_| rng.bytes(32)).collect();
                    }
                }
                queries.push(q);
            }
        }
        // proof-length sweep 0..=33 on the first case of each size class
        if cid < 4 {
            for l in 0..=33usize {
                let mut p: Vec<Vec<u8>> = tree.create_proof(0).iter().map(h2v).collect();
                while p.len() < l { p.push(rng.bytes(32)); }
                p.truncate(l);
                queries.push(Query { kind: 10, leaf: leaves[0].clone(), idx: 0, root: None, proof: p, chk: false, last: false, panicked: false });
            }
        }
        // last-leaf proofs made of the canonical empty-subtree roots, of every length around the maximal height
        // (each entry is exactly what the verifier compares with at a left-child height)
        if cid < 6 {
            let empties: Vec<Vec<u8>> = alpenglow::crypto::merkle::verif_hooks::empty_roots().iter().map(|r| h2v(r)).collect();
            for l in [empties.len().saturating_sub(2), empties.len() - 1, empties.len(), empties.len() + 1, empties.len() + 2, empties.len() + 8] {
                for idx in [0u64, 1] {
                    let mut pf: Vec<Vec<u8>> = empties.iter().cloned().take(l).collect();
                    while pf.len() < l { pf.push(if rng.chance(1, 2) { empties[empties.len() - 1].clone() } else { rng.bytes(32) }); }
                    queries.push(Query { kind: 12, leaf: leaves[0].clone(), idx, root: None, proof: pf, chk: false, last: false, panicked: false });
                }
            }
        }
        // the MAXIMAL-height last-leaf proof (32 canonical empty roots) of a synthetic root: verifies as it is (kind 13),
        // must fail once lengthened by further entries, canonical or arbitrary (kind 14)
        if cid < 6 {
            let empties: Vec<Vec<u8>> = alpenglow::crypto::merkle::verif_hooks::empty_roots().iter().map(|r| h2v(r)).collect();
            for idx in [0u64, 1] {
                let pf: Vec<Vec<u8>> = empties.clone();
                let r = PlainMerkleTree::derive_root(&leaves[0], idx as usize, &pf.iter().map(|x| v2h(x)).collect::<Vec<_>>());
                queries.push(Query { kind: 13, leaf: leaves[0].clone(), idx, root: Some(h2v(&r)), proof: pf.clone(), chk: false, last: false, panicked: false });
                for extra in [1usize, 2, 8] {
                    let mut p2 = pf.clone();
                    for _ in 0..extra { p2.push(if rng.chance(1, 2) { empties[empties.len() - 1].clone() } else { rng.bytes(32) }); }
                    queries.push(Query { kind: 14, leaf: leaves[0].clone(), idx, root: Some(h2v(&r)), proof: p2, chk: false, last: false, panicked: false });
                }
            }
        }
        let mut qtxt = Vec::new();
        for (qi, q) in queries.iter_mut().enumerate() {
            run_query(q, &root);
            if q.panicked { stats.harness_findings.push((cid as u64, format!("merkle-query:{}:verifier-panicked", KINDS[q.kind]))); }
            sigs.push((cid as u64, qi as u64, format!("merkle-query:{}:check={}:last={}", KINDS[q.kind], q.chk, q.last)));
            kind_count[q.kind] += 1;
            verdict_count[(q.chk as usize) * 2 + q.last as usize] += 1;
            let t = format!(
                "(Q {} {} {} {} {} {} {})",
                cf::n(q.kind as u64), it.hex(&q.leaf), cf::n(q.idx),
                cf::opt(q.root.as_ref().map(|r| it.hex(r))),
                cf::list(&q.proof.iter().map(|x| it.hex(x)).collect::<Vec<_>>()),
                cf::b(q.chk), cf::b(q.last)
            );
            stats.evaluations += 1;
            if seen.insert(format!("{}|{}", cf::list(&leaves.iter().map(|x| cf::hexraw(x)).collect::<Vec<_>>()), t)) && n >= 2 && !q.proof.is_empty() {
                stats.distinct_nontrivial += 1;
            }
            qtxt.push(t);
        }
        let leaves_txt = cf::list(&leaves.iter().map(|x| it.hex(x)).collect::<Vec<_>>());
        let case = format!(
            "(C15 {} {} {} {} {})",
            cf::n(cid as u64), leaves_txt, it.hex(root.as_ref()), cf::list(&proofs_txt), cf::list(&qtxt)
        );
        if cid < 2 && stats.samples.len() < 2 {
            stats.samples.push(format!("tree with {} leaves, height {}, root {}, {} queries; first query: {}", n, ht, cf::hexraw(root.as_ref()), queries.len(), qtxt.first().cloned().unwrap_or_default()));
        }
        descr.push(format!("case {}: tree with {} leaves (height {}), {} created proofs, {} queries", cid, n, ht, idxs.len(), queries.len()));
        cases.push(case);
    }
    stats.rule = "trees with structured leaf counts (1..=100, around powers of two; thorough: up to 1025) x queries (honest proof for every/sampled index + mutations: wrong leaf, wrong index, alias index i+k*2^h beyond the width, corrupted/truncated/extended proof, mutated root, padded position, inner node offered as leaf, proof-length sweep 0..=33, last-leaf proofs built from the canonical empty-subtree roots with lengths around the maximal tree height, the maximal-height last-leaf proof of a synthetic root as it is and lengthened; one tree of 32769 leaves per run - thorough: also 65537); a query is non-trivial when the tree has >= 2 leaves and the proof is non-empty; distinct by full content".to_string();
    stats.distribution.push(("query_kinds".into(), KINDS.iter().zip(kind_count.iter()).map(|(k, c)| format!("{}={}", k, c)).collect::<Vec<_>>().join(", ")));
    stats.distribution.push(("impl_verdicts(check,last)".into(), format!("FF={} FT={} TF={} TT={}", verdict_count[0], verdict_count[1], verdict_count[2], verdict_count[3])));
    sizes.sort();
    stats.distribution.push(("leaf_counts".into(), format!("min={} median={} max={}", sizes[0], sizes[sizes.len() / 2], sizes[sizes.len() - 1])));
    CaseSet {
        header: "From AG Require Import Oracle.C15.\n".to_string(),
        runner: "c15_run".to_string(),
        defs: it.defs,
        cases,
        descr,
        sigs,
        stats,
    }
}
