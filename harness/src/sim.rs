//! Deterministic multi-node simulation in virtual time: N validators, each correct one running the REAL
//! `PoolImpl` and the REAL `Votor` (driven handler by handler through the cfg(alpenglow_verif) hooks),
//! wired by a scheduler this module controls.
//!
//!  * one global event queue ordered by (virtual time in ms, sequence number);
//!  * every vote / certificate a Votor broadcasts is delivered to every validator's pool (also the
//!    sender's own: TrivialAll2All sends to every address including its own) after a scheduler-chosen
//!    delay: after the stabilisation time `gst` at most DELTA, before it arbitrary but finite
//!    (delivered by gst + DELTA at the latest), reordered, sometimes duplicated, in the `Lossy`
//!    pre-stabilisation mode sometimes lost;
//!  * pool events are handed to the node's own Votor in order, right after the pool operation;
//!  * blocks are abstract `(slot, hash, parent)` triples: the leader of a window (EpochInfo::leader =
//!    window mod n) asks its pool for a ready parent (`wait_for_parent_ready`, as
//!    block_producer::wait_for_first_slot does), then proposes one block per slot; every validator sees
//!    `FirstShred`, then `Block` (Votor) and `add_block` (pool) after a scheduler delay.  No shreds;
//!  * Votor's `set_timeouts` becomes timer events at the offsets of votor.rs (DELTA_TIMEOUT + DELTA_FIRST_SLICE,
//!    then one per slot);
//!  * the standstill loop of consensus.rs (no finalization progress for DELTA_STANDSTILL) triggers
//!    `recover_from_standstill`;
//!  * repair requests of the pool are answered (two network hops) when some correct validator has the block;
//!  * crashed validators stop at their crash time; Byzantine validators (< 20 % stake) run no Votor: they
//!    are silent, or send validly signed but arbitrary votes (equivocating notar votes to different
//!    validators, skip + notar, final without notar, fallback votes) and as leaders equivocate, propose to
//!    a part of the validators only, or stay silent.
//! Everything derives from one seed.  Per correct validator the exact input sequence and everything the
//! real code produced is recorded as Coq terms of Oracle/C02.v.
use std::cell::RefCell;
use std::cmp::Reverse;
use std::collections::{BTreeMap, BTreeSet, BinaryHeap, HashMap};
use std::panic::{AssertUnwindSafe, catch_unwind};
use std::rc::Rc;
use std::sync::Arc;

use alpenglow::consensus::{
    BlockInfo, BlockstoreEvent, Cert, ConsensusMessage, Pool, PoolEvent, PoolImpl, ValidatedCert, ValidatedVote,
    ValidatorEpochInfo, Vote, Votor,
};
use alpenglow::types::Slot;
use alpenglow::{BlockId, ValidatorIndex};
use either::Either;
use tokio::sync::{mpsc, oneshot};

use crate::coqfmt as cf;
use crate::pool::{Keys, SLOTS_PER_WINDOW, VK, hash_of, id_of, r_bid, r_cert, r_vote};
use crate::rng::Rng;
use crate::votor::Recorder;

/// The timing constants of src/consensus.rs in ms, read from the crate itself (DELTA is public, the other four come
/// through the cfg hook `consensus::verif_timing`): (DELTA, DELTA_BLOCK, DELTA_FIRST_SLICE, DELTA_TIMEOUT, DELTA_STANDSTILL).
pub fn timing_ms() -> (u64, u64, u64, u64, u64) {
    let (b, f, t, s) = alpenglow::consensus::verif_timing();
    (alpenglow::consensus::DELTA.as_millis() as u64, b.as_millis() as u64, f.as_millis() as u64, t.as_millis() as u64, s.as_millis() as u64)
}
#[allow(non_snake_case)] pub fn DELTA() -> u64 { timing_ms().0 }
#[allow(non_snake_case)] pub fn D_BLOCK() -> u64 { timing_ms().1 }
#[allow(non_snake_case)] pub fn D_FIRST() -> u64 { timing_ms().2 }
#[allow(non_snake_case)] pub fn D_TIMEOUT() -> u64 { timing_ms().3 }
#[allow(non_snake_case)] pub fn D_STANDSTILL() -> u64 { timing_ms().4 }

/// Offsets (ms after `set_timeouts`) at which the REAL timer task spawned by `Votor::set_timeouts` delivers the
/// crashed-leader timeout and the per-slot timeouts of a window, measured under tokio's paused clock (hook
/// `verif_next_timeout`).  The simulation arms its timer events at these measured offsets, so a change of the
/// schedule in votor.rs reaches the progress oracle.  `Err` = the timer task did not deliver the expected sequence
/// (crashed-leader timeout first, then one timeout per slot of the window in order).
pub fn measure_timer_schedule(keys: &Keys) -> Result<(u64, Vec<u64>), String> {
    let rt = tokio::runtime::Builder::new_current_thread().enable_all().start_paused(true).build().expect("rt");
    rt.block_on(async {
        let (_ptx, prx) = mpsc::channel::<PoolEvent>(4);
        let (_btx, brx) = mpsc::channel::<BlockstoreEvent>(4);
        let rec = Arc::new(Recorder::default());
        let t0 = tokio::time::Instant::now();
        // Votor::new arms the timers of window 0
        let mut v = Votor::new(ValidatorIndex::new(0), keys.sks[0].clone(), prx, brx, rec);
        let mut got: Vec<(u64, bool, u64)> = Vec::new();
        for _ in 0..=SLOTS_PER_WINDOW {
            match tokio::time::timeout(std::time::Duration::from_secs(3600), v.verif_next_timeout()).await {
                Ok(Some((slot, crashed))) => got.push((slot.inner(), crashed, t0.elapsed().as_millis() as u64)),
                _ => break,
            }
        }
        let shape_ok = got.len() as u64 == SLOTS_PER_WINDOW + 1 && got[0].1 && got[0].0 == 0
            && got[1..].iter().enumerate().all(|(k, g)| !g.1 && g.0 == k as u64);
        if !shape_ok { return Err(format!("{:?}", got)); }
        Ok((got[0].2, got[1..].iter().map(|g| g.2).collect()))
    })
}

static TIMERS: std::sync::OnceLock<((u64, Vec<u64>), Option<String>)> = std::sync::OnceLock::new();

/// Measured once per process; a malformed timer sequence is kept as a problem text (reported by the generators as a
/// finding) and the mirrored schedule is used instead.
pub fn timer_schedule(keys: &Keys) -> &'static ((u64, Vec<u64>), Option<String>) {
    TIMERS.get_or_init(|| match measure_timer_schedule(keys) {
        Ok(m) => (m, None),
        Err(e) => (mirrored_timer_schedule(), Some(e)),
    })
}

/// The schedule `Votor::set_timeouts` is documented to follow (mirrored constants).
pub fn mirrored_timer_schedule() -> (u64, Vec<u64>) {
    let c = D_TIMEOUT() + D_FIRST();
    (c, (0..SLOTS_PER_WINDOW).map(|k| c + (D_BLOCK() - D_FIRST()) + k * D_BLOCK()).collect())
}

#[derive(Clone, Copy, PartialEq, Eq, Debug)]
pub enum Role {
    Correct,
    /// runs the real code until the given time, then stops for good (0 = never starts)
    Crashed(u64),
    ByzSilent,
    ByzNoisy,
}

/// network behaviour before the stabilisation time
#[derive(Clone, Copy, PartialEq, Eq, Debug)]
pub enum PreNet {
    /// delays up to the full remaining time until gst (+ DELTA()), half of the messages fast
    Random,
    /// two groups; messages across the cut are held until gst
    Partition,
    /// one validator's traffic (in and out) is held until gst
    Straggler,
    /// as Random, but 30 % of the messages sent before gst are lost for good
    Lossy,
}

/// network behaviour after the stabilisation time (always <= DELTA())
#[derive(Clone, Copy, PartialEq, Eq, Debug)]
pub enum PostNet {
    Random,
    AlwaysMax,
    AlwaysMin,
    /// each validator pair has a fixed delay
    PerLink,
}

#[derive(Clone, Debug)]
pub struct Config {
    pub stakes: Vec<u64>,
    pub roles: Vec<Role>,
    pub gst: u64,
    pub pre: PreNet,
    pub post: PostNet,
    /// number of windows played after the first window that starts after gst
    pub windows_after: u64,
    /// Byzantine validators keep sending after gst
    pub byz_after_gst: bool,
    pub dup_percent: u64,
    /// safety runs (C01): a Byzantine leader may show different blocks to different validators even when some validators are crashed
    pub equivocate_with_crashes: bool,
    pub seed: u64,
}

/// Interned Coq terms of votes and certificates (`hx<i>`), shared by all runs of a case set.
#[derive(Default)]
pub struct Terms {
    map: HashMap<String, usize>,
    pub defs: Vec<String>,
}
impl Terms {
    pub fn id(&mut self, term: String) -> String {
        if let Some(i) = self.map.get(&term) {
            return format!("hx{}", i);
        }
        let i = self.defs.len();
        self.defs.push(format!("Definition hx{} := {}.", i, term));
        self.map.insert(term, i);
        format!("hx{}", i)
    }
}

enum Body {
    V(ValidatedVote),
    C(ValidatedCert),
}
struct MsgRec {
    hx: String,
    body: Body,
}

#[derive(Clone)]
enum Ev {
    Msg { to: usize, m: Rc<MsgRec> },
    FirstShred { to: usize, slot: u64 },
    VBlock { to: usize, slot: u64, hash: u64, parent: (u64, u64) },
    PBlock { to: usize, b: (u64, u64), p: (u64, u64) },
    Invalid { to: usize, slot: u64 },
    Timeout { to: usize, slot: u64, crashed: bool },
    StandCheck { to: usize },
    LeaderStart { who: usize, window: u64 },
    Produce { who: usize, slot: u64, hash: u64, parent: (u64, u64) },
    RepairTry { to: usize, b: (u64, u64), tries: u32 },
    ByzLead { who: usize, slot: u64, parent: (u64, u64) },
}

struct Item {
    t: u64,
    seq: u64,
    ev: Ev,
}
impl PartialEq for Item {
    fn eq(&self, o: &Self) -> bool { (self.t, self.seq) == (o.t, o.seq) }
}
impl Eq for Item {}
impl PartialOrd for Item {
    fn partial_cmp(&self, o: &Self) -> Option<std::cmp::Ordering> { Some(self.cmp(o)) }
}
impl Ord for Item {
    fn cmp(&self, o: &Self) -> std::cmp::Ordering { Reverse((self.t, self.seq)).cmp(&Reverse((o.t, o.seq))) }
}

enum In {
    Msg(Rc<MsgRec>),
    PoolBlock((u64, u64), (u64, u64)),
    Wait(u64),
    Standstill,
    FirstShred(u64),
    Block(u64, u64, (u64, u64)),
    Invalid(u64),
    Timeout(u64, bool),
}

enum LState {
    Idle,
    Waiting(u64, oneshot::Receiver<BlockId>),
    Producing,
    Done,
}

struct SimNode {
    pool: PoolImpl,
    votor: Option<Votor<Recorder>>,
    rec: Arc<Recorder>,
    epoch: Arc<ValidatorEpochInfo>,
    ev_rx: mpsc::Receiver<PoolEvent>,
    rp_rx: mpsc::Receiver<BlockId>,
    pool_dead: bool,
    votor_dead: bool,
    last_fin: u64,
    last_progress: u64,
    lstate: LState,
    /// receivers of waiters the block producer gave up on (SlotReady::Skip): kept only to observe that the pool fired them
    abandoned: Vec<(u64, oneshot::Receiver<BlockId>)>,
    has_block: BTreeSet<(u64, u64)>,
    repair_asked: BTreeSet<(u64, u64)>,
    /// windows whose timers were armed (first time)
    armed: BTreeMap<u64, u64>,
    steps: Vec<String>,
    // statistics / observation
    pub fin_log: Vec<(u64, u64)>,
    pub certs_seen: Vec<(u64, String)>,
    pub own_votes: Vec<String>,
}

pub struct RunResult {
    pub cfg: Config,
    pub horizon: u64,
    pub strict: bool,
    pub blocks: Vec<((u64, u64), (u64, u64), u64)>,
    /// rendered Coq term of the run (without the id)
    pub term_body: String,
    pub steps_total: usize,
    pub end_time: u64,
    pub final_fin: Vec<(usize, u64)>,
    pub kinds: BTreeMap<&'static str, u64>,
    /// violations the harness itself decides: unexpected panic texts, invalid created certificates
    pub findings: Vec<String>,
    pub good_windows: u64,
    pub faulty_windows: u64,
    pub genesis_child_stuck: bool,
}

pub struct Sim<'a> {
    /// measured offsets of the real timer task (see `measure_timer_schedule`)
    timers: (u64, Vec<u64>),
    cfg: Config,
    n: usize,
    keys: &'a mut Keys,
    terms: &'a mut Terms,
    rt: tokio::runtime::Runtime,
    rng: Rng,
    heap: BinaryHeap<Item>,
    seq: u64,
    now: u64,
    nodes: Vec<Option<SimNode>>,
    blocks: Vec<((u64, u64), (u64, u64), u64)>,
    horizon: Option<u64>,
    msg_cache: HashMap<String, Option<Rc<MsgRec>>>,
    link: Vec<Vec<u64>>,
    group: Vec<bool>,
    straggler: usize,
    lost_any: bool,
    kinds: BTreeMap<&'static str, u64>,
    findings: Vec<String>,
    hard_end: u64,
    events_done: u64,
    byz_plan: BTreeMap<(usize, u64), u64>,
    epoch0: Arc<ValidatorEpochInfo>,
    sabotage: Option<String>,
}

fn bid(b: (u64, u64)) -> BlockId {
    (Slot::new(b.0), hash_of(b.1))
}

impl<'a> Sim<'a> {
    pub fn new(cfg: Config, keys: &'a mut Keys, terms: &'a mut Terms) -> Self {
        let n = cfg.stakes.len();
        let rt = tokio::runtime::Builder::new_current_thread().enable_all().start_paused(true).build().expect("rt");
        let mut rng = Rng::new(cfg.seed ^ 0x51A1);
        let mut nodes = Vec::new();
        for i in 0..n {
            let runs_pool = !matches!(cfg.roles[i], Role::Crashed(0) | Role::ByzSilent);
            if !runs_pool {
                nodes.push(None);
                continue;
            }
            let epoch = keys.epoch(&cfg.stakes, i as u64);
            let (ev_tx, ev_rx) = mpsc::channel(1 << 16);
            let (rp_tx, rp_rx) = mpsc::channel(1 << 16);
            let pool = PoolImpl::new(epoch.clone(), ev_tx, rp_tx);
            let rec = Arc::new(Recorder::default());
            let votor = if matches!(cfg.roles[i], Role::Correct | Role::Crashed(_)) {
                let (_ptx, prx) = mpsc::channel::<PoolEvent>(4);
                let (_btx, brx) = mpsc::channel::<BlockstoreEvent>(4);
                let _g = rt.enter();
                let v = Votor::new(ValidatorIndex::new(i as u64), keys.sks[i].clone(), prx, brx, rec.clone());
                let _ = v.verif_take_timeouts_set();
                Some(v)
            } else {
                None
            };
            let mut armed = BTreeMap::new();
            armed.insert(0, 0);
            nodes.push(Some(SimNode {
                pool, votor, rec, epoch, ev_rx, rp_rx, pool_dead: false, votor_dead: false, last_fin: 0, last_progress: 0,
                lstate: LState::Idle, abandoned: Vec::new(), has_block: BTreeSet::new(), repair_asked: BTreeSet::new(), armed, steps: Vec::new(),
                fin_log: Vec::new(), certs_seen: Vec::new(), own_votes: Vec::new(),
            }));
        }
        let link = (0..n).map(|_| (0..n).map(|_| rng.range(1, DELTA())).collect()).collect();
        let group = (0..n).map(|_| rng.chance(1, 2)).collect();
        let straggler = rng.below(n as u64) as usize;
        let hard_end = cfg.gst + 45_000;
        // timely from the start: window 0 is the first window that starts after stabilisation
        let horizon0 = if cfg.gst == 0 { Some(cfg.windows_after) } else { None };
        let epoch0 = keys.epoch(&cfg.stakes, 0);
        let timers = timer_schedule(keys).0.clone();
        Sim {
            timers, cfg, n, keys, terms, rt, rng, heap: BinaryHeap::new(), seq: 0, now: 0, nodes, blocks: Vec::new(), horizon: horizon0, epoch0, sabotage: std::env::var("AGVERIF_SIM_SABOTAGE").ok(),
            msg_cache: HashMap::new(), link, group, straggler, lost_any: false, kinds: BTreeMap::new(), findings: Vec::new(),
            hard_end, events_done: 0, byz_plan: BTreeMap::new(),
        }
    }

    fn push(&mut self, t: u64, ev: Ev) {
        self.seq += 1;
        self.heap.push(Item { t, seq: self.seq, ev });
    }

    fn alive(&self, i: usize, t: u64) -> bool {
        match self.cfg.roles[i] {
            Role::Correct => true,
            Role::Crashed(at) => t < at,
            Role::ByzSilent => false,
            Role::ByzNoisy => true,
        }
    }
    fn is_correct(&self, i: usize) -> bool { self.cfg.roles[i] == Role::Correct }

    /// delivery delay of something sent now from `from` to `to`; None = lost
    fn delay(&mut self, from: usize, to: usize) -> Option<u64> {
        let now = self.now;
        // self-test of the oracles only (never set by bin/check): AGVERIF_SIM_SABOTAGE=isolate cuts the highest
        // correct validator off after stabilisation, =slow triples the delay bound after stabilisation
        if let Some(sab) = &self.sabotage {
            if now >= self.cfg.gst && from != to {
                if sab == "isolate" && Some(to) == (0..self.n).rev().find(|&j| self.is_correct(j)) { return None; }
                if sab == "slow" { return Some(self.rng.range(2 * DELTA(), 3 * DELTA())); }
            }
        }
        if from == to {
            return Some(if self.rng.chance(3, 4) { self.rng.range(0, 2) } else { self.rng.range(1, DELTA()) });
        }
        if now >= self.cfg.gst {
            return Some(match self.cfg.post {
                PostNet::Random => self.rng.range(1, DELTA()),
                PostNet::AlwaysMax => DELTA(),
                PostNet::AlwaysMin => 1,
                PostNet::PerLink => self.link[from][to],
            });
        }
        let until = self.cfg.gst - now;
        Some(match self.cfg.pre {
            PreNet::Random => if self.rng.chance(1, 2) { self.rng.range(1, DELTA()) } else { self.rng.range(1, until + DELTA()) },
            PreNet::Lossy => {
                if self.rng.chance(3, 10) {
                    self.lost_any = true;
                    return None;
                }
                if self.rng.chance(1, 2) { self.rng.range(1, DELTA()) } else { self.rng.range(1, until + DELTA()) }
            }
            PreNet::Partition => if self.group[from] == self.group[to] { self.rng.range(1, DELTA()) } else { until + self.rng.range(1, DELTA()) },
            PreNet::Straggler => if from == self.straggler || to == self.straggler { until + self.rng.range(1, DELTA()) } else { self.rng.range(1, DELTA()) },
        })
    }

    fn count(&mut self, k: &'static str) { *self.kinds.entry(k).or_default() += 1; }

    // ---------- messages ----------
    fn msg_of_vote(&mut self, v: &Vote) -> Option<Rc<MsgRec>> {
        let term = r_vote(v);
        if let Some(m) = self.msg_cache.get(&term) {
            return m.clone();
        }
        let ep = self.epoch0.clone();
        let r = ValidatedVote::try_new(v.clone(), ep.epoch_info()).ok().map(|vv| Rc::new(MsgRec { hx: self.terms.id(term.clone()), body: Body::V(vv) }));
        if r.is_none() { self.findings.push(format!("vote fails validation at receivers: {}", term)); }
        self.msg_cache.insert(term, r.clone());
        r
    }
    fn msg_of_cert(&mut self, c: &Cert) -> Option<Rc<MsgRec>> {
        let term = r_cert(c);
        if let Some(m) = self.msg_cache.get(&term) {
            return m.clone();
        }
        let ep = self.epoch0.clone();
        let r = ValidatedCert::try_new(c.clone(), ep.epoch_info()).ok().map(|vc| Rc::new(MsgRec { hx: self.terms.id(term.clone()), body: Body::C(vc) }));
        if r.is_none() { self.findings.push(format!("created certificate fails validation at receivers: {}", term)); }
        self.msg_cache.insert(term, r.clone());
        r
    }

    fn send(&mut self, from: usize, to: usize, m: &Rc<MsgRec>) {
        let copies = if self.cfg.dup_percent > 0 && self.rng.below(100) < self.cfg.dup_percent { 2 } else { 1 };
        for _ in 0..copies {
            if let Some(d) = self.delay(from, to) {
                let t = self.now + d;
                self.push(t, Ev::Msg { to, m: m.clone() });
            }
        }
    }
    fn broadcast(&mut self, from: usize, m: &Rc<MsgRec>) {
        for to in 0..self.n {
            self.send(from, to, m);
        }
    }

    // ---------- one input at one node ----------
    fn node_in(&mut self, i: usize, input: In) {
        let t = self.now;
        if self.nodes[i].is_none() {
            return;
        }
        let recorded = self.is_correct(i);
        let has_votor = self.nodes[i].as_ref().unwrap().votor.is_some();
        if !has_votor {
            // Byzantine observer: a pool only, to know which parents are ready
            self.byz_observe(i, input);
            return;
        }
        let mut node = self.nodes[i].take().unwrap();
        let rt = &self.rt;
        let is_pool_in = matches!(input, In::Msg(_) | In::PoolBlock(..) | In::Wait(_) | In::Standstill);
        let mut res = "(RVerdict VNone)".to_string();
        let in_txt: String;
        let mut woken_txt: Vec<String> = Vec::new();
        let mut wait_got: Option<(u64, u64)> = None;
        match &input {
            In::Msg(m) => {
                match &m.body {
                    Body::V(vv) => {
                        in_txt = format!("(NVote {})", m.hx);
                        if node.pool_dead { res = "RPanic".into(); } else {
                            let vv = vv.clone();
                            let pool = &mut node.pool;
                            match catch_unwind(AssertUnwindSafe(|| rt.block_on(pool.add_vote(vv)))) {
                                Ok(r) => {
                                    use alpenglow::consensus::AddVoteError as E;
                                    res = match r {
                                        Ok(()) => "(RVerdict VOk)".into(),
                                        Err(E::Duplicate) => "(RVerdict VDuplicate)".into(),
                                        Err(E::SlotOutOfBounds) => "(RVerdict VOutOfBounds)".into(),
                                        Err(E::Slashable(o)) => {
                                            let d = format!("{:?}", o);
                                            let name = if d.starts_with("NotarDifferentHash") { "ONotarDifferentHash" }
                                                else if d.starts_with("SkipAndNotarize") { "OSkipAndNotarize" }
                                                else if d.starts_with("SkipAndFinalize") { "OSkipAndFinalize" }
                                                else { "ONotarFallbackAndFinalize" };
                                            format!("(RVerdict (VSlashable {}))", name)
                                        }
                                    };
                                }
                                Err(_) => { res = "RPanic".into(); node.pool_dead = true; self.findings.push(format!("pool panicked in add_vote at validator {}: {}", i, crate::LAST_PANIC.lock().unwrap())); }
                            }
                        }
                    }
                    Body::C(vc) => {
                        in_txt = format!("(NCert {})", m.hx);
                        if node.pool_dead { res = "RPanic".into(); } else {
                            let vc = vc.clone();
                            let pool = &mut node.pool;
                            match catch_unwind(AssertUnwindSafe(|| rt.block_on(pool.add_cert(vc)))) {
                                Ok(r) => {
                                    let d = format!("{:?}", r);
                                    res = if r.is_ok() { "(RVerdict VOk)".into() } else if d.contains("Duplicate") { "(RVerdict VDuplicate)".into() } else { "(RVerdict VOutOfBounds)".into() };
                                }
                                Err(_) => { res = "RPanic".into(); node.pool_dead = true; self.findings.push(format!("pool panicked in add_cert at validator {}: {}", i, crate::LAST_PANIC.lock().unwrap())); }
                            }
                        }
                    }
                }
            }
            In::PoolBlock(b, p) => {
                in_txt = format!("(NPoolBlock {} {})", r_bid(*b), r_bid(*p));
                if node.pool_dead { res = "RPanic".into(); } else {
                    let pool = &mut node.pool;
                    let (bb, pp) = (bid(*b), bid(*p));
                    if catch_unwind(AssertUnwindSafe(|| rt.block_on(pool.add_block(bb, pp)))).is_err() {
                        res = "RPanic".into(); node.pool_dead = true;
                        self.findings.push(format!("pool panicked in add_block at validator {}: {}", i, crate::LAST_PANIC.lock().unwrap()));
                    }
                }
            }
            In::Wait(s) => {
                in_txt = format!("(NWait {})", cf::n(*s));
                if node.pool_dead { res = "RPanic".into(); } else {
                    let pool = &mut node.pool;
                    let slot = Slot::new(*s);
                    match catch_unwind(AssertUnwindSafe(|| pool.wait_for_parent_ready(slot))) {
                        Ok(Either::Left(id)) => { let v = (id.0.inner(), id_of(&id.1)); wait_got = Some(v); res = format!("(RWait (Some {}))", r_bid(v)); }
                        Ok(Either::Right(rx)) => { node.lstate = LState::Waiting(*s, rx); res = "(RWait None)".into(); }
                        Err(_) => { res = "RPanic".into(); node.pool_dead = true; self.findings.push(format!("pool panicked in wait_for_parent_ready at validator {}", i)); }
                    }
                }
            }
            In::Standstill => {
                in_txt = "NStandstill".into();
                if node.pool_dead { res = "RPanic".into(); } else {
                    let pool = &node.pool;
                    if catch_unwind(AssertUnwindSafe(|| rt.block_on(pool.recover_from_standstill()))).is_err() {
                        res = "RPanic".into(); node.pool_dead = true;
                        self.findings.push(format!("pool panicked in recover_from_standstill at validator {}: {}", i, crate::LAST_PANIC.lock().unwrap()));
                    }
                }
            }
            In::FirstShred(s) => { in_txt = format!("(NFirstShred {})", cf::n(*s)); }
            In::Block(s, h, p) => { in_txt = format!("(NBlock {} {} {})", cf::n(*s), cf::n(*h), r_bid(*p)); }
            In::Invalid(s) => { in_txt = format!("(NInvalidBlock {})", cf::n(*s)); }
            In::Timeout(s, c) => { in_txt = if *c { format!("(NTimeoutCrashed {})", cf::n(*s)) } else { format!("(NTimeout {})", cf::n(*s)) }; }
        }
        // pool outputs
        let mut events: Vec<PoolEvent> = Vec::new();
        let mut repairs: Vec<(u64, u64)> = Vec::new();
        if is_pool_in {
            while let Ok(e) = node.ev_rx.try_recv() { events.push(e); }
            while let Ok(b) = node.rp_rx.try_recv() { repairs.push((b.0.inner(), id_of(&b.1))); }
        }
        let mut woken_parent: Option<(u64, (u64, u64))> = None;
        {
            let mut still = Vec::new();
            for (s, mut rx) in node.abandoned.drain(..) {
                match rx.try_recv() {
                    Ok(id) => woken_txt.push(format!("(EWaiterWoken {} {})", cf::n(s), r_bid((id.0.inner(), id_of(&id.1))))),
                    Err(oneshot::error::TryRecvError::Empty) => still.push((s, rx)),
                    Err(oneshot::error::TryRecvError::Closed) => {}
                }
            }
            node.abandoned = still;
        }
        if let LState::Waiting(s, rx) = &mut node.lstate {
            if let Ok(id) = rx.try_recv() {
                let p = (id.0.inner(), id_of(&id.1));
                woken_parent = Some((*s, p));
                woken_txt.push(format!("(EWaiterWoken {} {})", cf::n(*s), r_bid(p)));
            }
        }
        // Votor
        {
            let votor = node.votor.as_mut().unwrap();
            let dead = &mut node.votor_dead;
            let mut run = |f: &mut dyn FnMut(&mut Votor<Recorder>)| {
                if *dead { return; }
                if catch_unwind(AssertUnwindSafe(|| f(votor))).is_err() { *dead = true; }
            };
            if is_pool_in {
                for e in &events {
                    let e2 = e.clone();
                    run(&mut |v| rt.block_on(v.verif_pool_event(e2.clone())));
                }
            } else {
                match &input {
                    In::FirstShred(s) => { let ev = BlockstoreEvent::FirstShred(Slot::new(*s)); run(&mut |v| rt.block_on(v.verif_blockstore_event(ev.clone()))); }
                    In::Block(s, h, p) => {
                        let ev = BlockstoreEvent::Block { slot: Slot::new(*s), block_info: BlockInfo::verif_new(hash_of(*h), bid(*p)) };
                        run(&mut |v| rt.block_on(v.verif_blockstore_event(ev.clone())));
                    }
                    In::Invalid(s) => { let ev = BlockstoreEvent::InvalidBlock(Slot::new(*s)); run(&mut |v| rt.block_on(v.verif_blockstore_event(ev.clone()))); }
                    In::Timeout(s, c) => { let (s, c) = (*s, *c); run(&mut |v| rt.block_on(v.verif_timeout(Slot::new(s), c))); }
                    _ => {}
                }
            }
        }
        if node.votor_dead && !self.findings.iter().any(|f| f.starts_with(&format!("votor panicked at validator {}", i))) {
            self.findings.push(format!("votor panicked at validator {}: {}", i, crate::LAST_PANIC.lock().unwrap()));
        }
        let msgs: Vec<ConsensusMessage> = std::mem::take(&mut *node.rec.log.lock().unwrap());
        let tms: Vec<u64> = if node.votor_dead { vec![] } else { node.votor.as_ref().unwrap().verif_take_timeouts_set().iter().map(|s| s.inner()).collect() };
        let fin = if node.pool_dead { node.last_fin } else { node.pool.finalized_slot().inner() };
        if fin > node.last_fin {
            node.last_fin = fin;
            node.last_progress = t;
            node.fin_log.push((t, fin));
        }
        // outgoing messages
        let mut out_txt: Vec<String> = Vec::new();
        let mut out_msgs: Vec<Rc<MsgRec>> = Vec::new();
        for m in &msgs {
            match m {
                ConsensusMessage::Vote(v) => {
                    if let Some(r) = self.msg_of_vote(v) { out_txt.push(format!("(VBVote {})", r.hx)); out_msgs.push(r); } else { out_txt.push(format!("(VBVote {})", r_vote(v))); }
                    node.own_votes.push(r_vote(v));
                }
                ConsensusMessage::Cert(c) => {
                    if let Some(r) = self.msg_of_cert(c) { out_txt.push(format!("(VBCert {})", r.hx)); out_msgs.push(r); } else { out_txt.push(format!("(VBCert {})", r_cert(c))); }
                }
            }
        }
        // render
        if recorded {
            let ev_txt: Vec<String> = events.iter().map(|e| self.r_event(e)).collect();
            for e in &events {
                if let PoolEvent::CertCreated(c) = e { node.certs_seen.push((t, r_cert(c))); }
            }
            let rp_txt: Vec<String> = repairs.iter().map(|b| r_bid(*b)).collect();
            let quiet = ev_txt.is_empty() && woken_txt.is_empty() && rp_txt.is_empty() && out_txt.is_empty() && tms.is_empty() && !node.votor_dead;
            let step = if quiet {
                match (&input, res.as_str()) {
                    (In::Msg(m), "(RVerdict VOk)") if matches!(m.body, Body::V(_)) => format!("sv {} {} {}", cf::n(t), m.hx, cf::n(fin)),
                    (In::Msg(m), "(RVerdict VDuplicate)") if matches!(m.body, Body::V(_)) => format!("sd {} {} {}", cf::n(t), m.hx, cf::n(fin)),
                    (In::Msg(m), "(RVerdict VOutOfBounds)") if matches!(m.body, Body::V(_)) => format!("sx {} {} {}", cf::n(t), m.hx, cf::n(fin)),
                    (In::Msg(m), "(RVerdict VDuplicate)") => format!("cd {} {} {}", cf::n(t), m.hx, cf::n(fin)),
                    (In::Msg(m), "(RVerdict VOutOfBounds)") => format!("cx {} {} {}", cf::n(t), m.hx, cf::n(fin)),
                    (_, "(RVerdict VNone)") => format!("sq {} {} {}", cf::n(t), in_txt, cf::n(fin)),
                    _ => format!("mkNS {} {} {} [] [] [] [] [] {} false", cf::n(t), in_txt, res, cf::n(fin)),
                }
            } else {
                format!("mkNS {} {} {} {} {} {} {} {} {} {}", cf::n(t), in_txt, res, cf::list(&ev_txt), cf::list(&woken_txt), cf::list(&rp_txt),
                        cf::list(&out_txt), cf::list(&tms.iter().map(|s| cf::n(*s)).collect::<Vec<_>>()), cf::n(fin), cf::b(node.votor_dead))
            };
            node.steps.push(step);
        }
        // bookkeeping of what the node knows
        if let In::Block(s, h, _) = &input { node.has_block.insert((*s, *h)); }
        let mut new_armed: Vec<u64> = Vec::new();
        for s in &tms {
            let w = s / SLOTS_PER_WINDOW;
            if !node.armed.contains_key(&w) { node.armed.insert(w, t); new_armed.push(w); }
        }
        let mut to_repair: Vec<(u64, u64)> = Vec::new();
        for b in &repairs {
            if !node.has_block.contains(b) && node.repair_asked.insert(*b) { to_repair.push(*b); }
        }
        // leader state machine of this validator
        let mut start_produce: Option<(u64, (u64, u64))> = None;
        let mut next_window: Option<u64> = None;
        if let Some(p) = wait_got {
            if let In::Wait(s) = &input { start_produce = Some((*s, p)); }
        }
        if let Some((s, p)) = woken_parent {
            node.lstate = LState::Idle;
            start_produce = Some((s, p));
        } else if let LState::Waiting(s, _) = &node.lstate {
            // wait_for_first_slot: a later finalization makes the leader give up on the window
            if fin >= *s {
                let w = *s / SLOTS_PER_WINDOW;
                if let LState::Waiting(s0, rx) = std::mem::replace(&mut node.lstate, LState::Idle) { node.abandoned.push((s0, rx)); }
                next_window = Some(w + self.n as u64);
                self.count("leader-skips-own-window");
            }
        }
        self.nodes[i] = Some(node);
        // schedule consequences
        for m in &out_msgs {
            self.broadcast(i, m);
        }
        for s in tms {
            self.arm_timers(i, s);
        }
        for w in new_armed {
            if self.horizon.is_none() && t >= self.cfg.gst && self.is_correct(i) {
                // first window that starts after stabilisation (none of the correct validators armed it before)
                let first_any = (0..self.n).all(|j| j == i || !self.is_correct(j) || !self.nodes[j].as_ref().unwrap().armed.contains_key(&w) || self.nodes[j].as_ref().unwrap().armed[&w] >= self.cfg.gst);
                if first_any { self.horizon = Some(w + self.cfg.windows_after); }
            }
        }
        for b in to_repair {
            let d = self.rng.range(1, DELTA());
            self.push(t + d, Ev::RepairTry { to: i, b, tries: 0 });
        }
        if let Some((s, p)) = start_produce {
            self.begin_window(i, s, p);
        }
        if let Some(w) = next_window {
            self.push(t, Ev::LeaderStart { who: i, window: w });
        }
    }

    fn r_event(&mut self, e: &PoolEvent) -> String {
        match e {
            PoolEvent::ParentReady { slot, parent } => format!("(EParentReady {} {})", cf::n(slot.inner()), r_bid((parent.0.inner(), id_of(&parent.1)))),
            PoolEvent::SafeToNotar((s, h)) => format!("(ESafeToNotar {})", r_bid((s.inner(), id_of(h)))),
            PoolEvent::SafeToSkip(s) => format!("(ESafeToSkip {})", cf::n(s.inner())),
            PoolEvent::CertCreated(c) => { let id = self.terms.id(r_cert(c)); format!("(ECertCreated {})", id) }
            PoolEvent::Standstill(s, cs, vs) => {
                let cl: Vec<String> = cs.iter().map(|c| self.terms.id(r_cert(c))).collect();
                let vl: Vec<String> = vs.iter().map(|v| self.terms.id(r_vote(v))).collect();
                format!("(EStandstill {} {} {})", cf::n(s.inner()), cf::list(&cl), cf::list(&vl))
            }
        }
    }

    fn arm_timers(&mut self, i: usize, s: u64) {
        if let Some(h) = self.horizon { if s / SLOTS_PER_WINDOW >= h { return; } }
        let t = self.now;
        let (crashed_at, slots_at) = self.timers.clone();
        self.push(t + crashed_at, Ev::Timeout { to: i, slot: s, crashed: true });
        for k in 0..SLOTS_PER_WINDOW {
            self.push(t + slots_at[k as usize], Ev::Timeout { to: i, slot: s + k, crashed: false });
        }
    }

    // ---------- leaders ----------
    fn begin_window(&mut self, who: usize, first_slot: u64, parent: (u64, u64)) {
        let w = first_slot / SLOTS_PER_WINDOW;
        if let Some(h) = self.horizon { if w >= h { if let Some(n) = self.nodes[who].as_mut() { n.lstate = LState::Done; } return; } }
        if let Some(n) = self.nodes[who].as_mut() { n.lstate = LState::Producing; }
        let slot = if first_slot == 0 { 1 } else { first_slot };
        self.begin_block(who, slot, parent);
    }

    fn begin_block(&mut self, who: usize, slot: u64, parent: (u64, u64)) {
        let t = self.now;
        let hash = slot * 10 + 1;
        // block time: DELTA_BLOCK, occasionally shorter (optimistic production had a head start)
        let dur = if self.rng.chance(1, 6) { self.rng.range(D_FIRST() + 1, D_BLOCK()) } else { D_BLOCK() };
        for to in 0..self.n {
            if to == who { self.push(t + D_FIRST().min(dur), Ev::FirstShred { to, slot }); continue; }
            if let Some(d) = self.delay(who, to) {
                let tf = (t + D_FIRST() + d).min(t + dur);
                self.push(tf, Ev::FirstShred { to, slot });
            }
        }
        self.push(t + dur, Ev::Produce { who, slot, hash, parent });
    }

    fn disseminate(&mut self, who: usize, slot: u64, hash: u64, parent: (u64, u64), targets: &[usize]) {
        let t = self.now;
        for &to in targets {
            let d = if to == who { Some(0) } else { self.delay(who, to) };
            if let Some(d) = d {
                let d = if to == who { 0 } else { d.max(1) };
                // Votor's Block event and the pool registration are separate tasks in the node: either order
                if self.rng.chance(3, 4) {
                    self.push(t + d, Ev::VBlock { to, slot, hash, parent });
                    self.push(t + d, Ev::PBlock { to, b: (slot, hash), p: parent });
                } else {
                    self.push(t + d, Ev::PBlock { to, b: (slot, hash), p: parent });
                    self.push(t + d, Ev::VBlock { to, slot, hash, parent });
                }
            }
        }
    }

    fn leader_windows_next(&self, w: u64) -> u64 { w + self.n as u64 }

    // ---------- Byzantine validators ----------
    fn byz_observe(&mut self, i: usize, input: In) {
        let t = self.now;
        let mut node = self.nodes[i].take().unwrap();
        let rt = &self.rt;
        let mut seen_block: Option<(u64, u64, (u64, u64))> = None;
        match &input {
            In::Msg(m) => {
                if !node.pool_dead {
                    let pool = &mut node.pool;
                    let r = match &m.body {
                        Body::V(vv) => { let vv = vv.clone(); catch_unwind(AssertUnwindSafe(|| { let _ = rt.block_on(pool.add_vote(vv)); })) }
                        Body::C(vc) => { let vc = vc.clone(); catch_unwind(AssertUnwindSafe(|| { let _ = rt.block_on(pool.add_cert(vc)); })) }
                    };
                    if r.is_err() { node.pool_dead = true; }
                }
            }
            In::PoolBlock(b, p) => {
                if !node.pool_dead {
                    let pool = &mut node.pool;
                    let (bb, pp) = (bid(*b), bid(*p));
                    if catch_unwind(AssertUnwindSafe(|| rt.block_on(pool.add_block(bb, pp)))).is_err() { node.pool_dead = true; }
                }
            }
            In::Block(s, h, p) => { seen_block = Some((*s, *h, *p)); }
            _ => {}
        }
        let mut ready: Vec<(u64, (u64, u64))> = Vec::new();
        while let Ok(e) = node.ev_rx.try_recv() {
            if let PoolEvent::ParentReady { slot, parent } = e { ready.push((slot.inner(), (parent.0.inner(), id_of(&parent.1)))); }
        }
        while node.rp_rx.try_recv().is_ok() {}
        self.nodes[i] = Some(node);
        let active = self.cfg.byz_after_gst || t < self.cfg.gst;
        if !active { return; }
        if let Some((s, h, p)) = seen_block {
            self.byz_vote(i, s, h, p);
        }
        for (s, p) in ready {
            let w = s / SLOTS_PER_WINDOW;
            if (w % self.n as u64) as usize == i && !self.byz_plan.contains_key(&(i, s)) {
                if let Some(hz) = self.horizon { if w >= hz { continue; } }
                self.byz_plan.insert((i, s), 1);
                let d = self.rng.range(0, D_BLOCK());
                self.push(t + d, Ev::ByzLead { who: i, slot: s, parent: p });
            }
        }
    }

    fn byz_send_vote(&mut self, from: usize, targets: &[usize], slot: u64, kind: VK, hash: u64) {
        let v = self.keys.vote(slot, kind, hash, from as u64);
        if let Some(m) = self.msg_of_vote(&v) {
            for &to in targets { self.send(from, to, &m); }
        }
    }

    /// reaction of a noisy Byzantine validator to a proposed block
    fn byz_vote(&mut self, i: usize, s: u64, h: u64, _p: (u64, u64)) {
        if self.byz_plan.contains_key(&(i, 1_000_000 + s)) { return; }
        self.byz_plan.insert((i, 1_000_000 + s), 1);
        if let Some(hz) = self.horizon { if s / SLOTS_PER_WINDOW >= hz { return; } }
        let all: Vec<usize> = (0..self.n).collect();
        let mut a: Vec<usize> = Vec::new();
        let mut b: Vec<usize> = Vec::new();
        for j in 0..self.n { if self.rng.chance(1, 2) { a.push(j) } else { b.push(j) } }
        let other = s * 10 + 7;
        match self.rng.below(8) {
            0 => { self.count("byz:equivocating-notar"); self.byz_send_vote(i, &a, s, VK::Notar, h); self.byz_send_vote(i, &b, s, VK::Notar, other); }
            1 => { self.count("byz:skip-and-notar"); self.byz_send_vote(i, &all, s, VK::Skip, 0); self.byz_send_vote(i, &all, s, VK::Notar, h); }
            2 => { self.count("byz:final-without-notar"); self.byz_send_vote(i, &all, s, VK::Final, 0); }
            3 => { self.count("byz:fallback-votes"); self.byz_send_vote(i, &all, s, VK::NotarFb, other); self.byz_send_vote(i, &a, s, VK::SkipFb, 0); self.byz_send_vote(i, &b, s, VK::NotarFb, h); }
            4 => { self.count("byz:skip-whole-window"); let w0 = (s / SLOTS_PER_WINDOW) * SLOTS_PER_WINDOW; for k in 0..SLOTS_PER_WINDOW { if w0 + k >= 1 { self.byz_send_vote(i, &all, w0 + k, VK::Skip, 0); } } }
            5 => { self.count("byz:honest-looking-notar"); self.byz_send_vote(i, &all, s, VK::Notar, h); self.byz_send_vote(i, &a, s, VK::Final, 0); }
            6 => { self.count("byz:split-skip-notar"); self.byz_send_vote(i, &a, s, VK::Skip, 0); self.byz_send_vote(i, &b, s, VK::Notar, h); }
            _ => { self.count("byz:quiet"); }
        }
    }

    /// a noisy Byzantine leader whose window became ready at its own pool
    fn byz_lead(&mut self, who: usize, first: u64, parent: (u64, u64)) {
        let all: Vec<usize> = (0..self.n).collect();
        let mut mode = self.rng.below(4);
        // Alpenglow tolerates < 20 % crashed stake on top of < 20 % Byzantine only under "Rotor non-equivocation"
        // (two correct validators never reconstruct different blocks for one slot): with crashed validators in
        // the run a Byzantine leader may withhold or propose partially, but does not show different blocks
        if mode == 1 && !self.cfg.equivocate_with_crashes && self.cfg.roles.iter().any(|r| matches!(r, Role::Crashed(_))) { mode = 2; }
        let first = if first == 0 { 1 } else { first };
        let last = (first / SLOTS_PER_WINDOW) * SLOTS_PER_WINDOW + SLOTS_PER_WINDOW - 1;
        match mode {
            0 => { self.count("byzleader:silent"); }
            1 => {
                // equivocation in the first slot: two blocks to two halves, some validators see both
                self.count("byzleader:equivocates");
                let (h1, h2) = (first * 10 + 2, first * 10 + 3);
                self.blocks.push(((first, h1), parent, who as u64));
                self.blocks.push(((first, h2), parent, who as u64));
                let mut a = Vec::new(); let mut b = Vec::new();
                for j in 0..self.n { if self.rng.chance(1, 2) { a.push(j) } else { b.push(j) } }
                for &to in &all { if let Some(d) = self.delay(who, to) { let t = self.now + d; self.push(t, Ev::FirstShred { to, slot: first }); } }
                let t0 = self.now;
                self.now = t0 + DELTA().min(D_BLOCK());
                self.disseminate(who, first, h1, parent, &a);
                self.disseminate(who, first, h2, parent, &b);
                for &to in &all {
                    if self.rng.chance(1, 3) { if let Some(d) = self.delay(who, to) { let t = self.now + d + DELTA(); self.push(t, Ev::Invalid { to, slot: first }); } }
                }
                self.now = t0;
            }
            2 => {
                // proposes the whole window, but only to a part of the validators
                self.count("byzleader:partial-dissemination");
                let mut part: Vec<usize> = Vec::new();
                for j in 0..self.n { if self.rng.chance(2, 3) { part.push(j) } }
                let mut par = parent;
                let t0 = self.now;
                for s in first..=last {
                    let h = s * 10 + 2;
                    self.blocks.push(((s, h), par, who as u64));
                    self.now += D_BLOCK();
                    for &to in &part { if let Some(d) = self.delay(who, to) { let t = self.now - D_BLOCK() + d.min(D_BLOCK()); self.push(t, Ev::FirstShred { to, slot: s }); } }
                    self.disseminate(who, s, h, par, &part);
                    par = (s, h);
                }
                self.now = t0;
            }
            _ => {
                // behaves like a correct leader for its blocks (its votes stay arbitrary)
                self.count("byzleader:proposes-normally");
                let mut par = parent;
                let t0 = self.now;
                for s in first..=last {
                    let h = s * 10 + 2;
                    self.blocks.push(((s, h), par, who as u64));
                    self.now += D_BLOCK();
                    for &to in &all { if let Some(d) = self.delay(who, to) { let t = self.now - D_BLOCK() + d.min(D_BLOCK()); self.push(t, Ev::FirstShred { to, slot: s }); } }
                    self.disseminate(who, s, h, par, &all);
                    par = (s, h);
                }
                self.now = t0;
            }
        }
    }

    // ---------- main loop ----------
    fn complete(&self) -> bool {
        let Some(h) = self.horizon else { return false };
        (0..self.n).all(|i| !self.is_correct(i) || {
            let nd = self.nodes[i].as_ref().unwrap();
            nd.armed.contains_key(&h) || nd.last_fin + 1 >= h * SLOTS_PER_WINDOW
        })
    }

    pub fn run(mut self, id: u64) -> RunResult {
        // every validator that runs the block-production loop starts it at time 0
        for i in 0..self.n {
            if matches!(self.cfg.roles[i], Role::Correct | Role::Crashed(_)) && self.nodes[i].is_some() {
                self.push(0, Ev::LeaderStart { who: i, window: i as u64 });
                self.push(D_STANDSTILL() + D_BLOCK(), Ev::StandCheck { to: i });
                // Votor::new arms the timers of window 0
                self.arm_timers(i, 0);
            }
        }
        // a Byzantine leader of window 0 knows the genesis parent without any event
        if self.cfg.roles[0] == Role::ByzNoisy {
            self.byz_plan.insert((0, 0), 1);
            self.push(0, Ev::ByzLead { who: 0, slot: 0, parent: (0, 0) });
        }
        while let Some(item) = self.heap.pop() {
            self.now = item.t;
            self.events_done += 1;
            if self.now > self.hard_end || self.events_done > 3_000_000 { break; }
            match item.ev {
                Ev::Msg { to, m } => { if self.alive(to, self.now) { self.node_in(to, In::Msg(m)); } }
                Ev::FirstShred { to, slot } => { if self.alive(to, self.now) { self.node_in(to, In::FirstShred(slot)); } }
                Ev::VBlock { to, slot, hash, parent } => { if self.alive(to, self.now) { self.node_in(to, In::Block(slot, hash, parent)); } }
                Ev::PBlock { to, b, p } => { if self.alive(to, self.now) { self.node_in(to, In::PoolBlock(b, p)); } }
                Ev::Invalid { to, slot } => { if self.alive(to, self.now) { self.node_in(to, In::Invalid(slot)); } }
                Ev::Timeout { to, slot, crashed } => {
                    if self.alive(to, self.now) && self.horizon.map_or(true, |h| slot / SLOTS_PER_WINDOW < h) { self.node_in(to, In::Timeout(slot, crashed)); }
                }
                Ev::StandCheck { to } => {
                    if !self.alive(to, self.now) || self.complete() || self.nodes[to].as_ref().map_or(true, |n| n.votor.is_none()) { continue; }
                    let lp = self.nodes[to].as_ref().unwrap().last_progress;
                    if self.now - lp > D_STANDSTILL() {
                        self.count("standstill-recovery");
                        self.nodes[to].as_mut().unwrap().last_progress = self.now;
                        self.node_in(to, In::Standstill);
                        let t = self.now + D_STANDSTILL() + D_BLOCK();
                        self.push(t, Ev::StandCheck { to });
                    } else {
                        self.push(lp + D_STANDSTILL() + D_BLOCK(), Ev::StandCheck { to });
                    }
                }
                Ev::LeaderStart { who, window } => {
                    if !self.alive(who, self.now) { continue; }
                    if let Some(h) = self.horizon { if window >= h { if let Some(n) = self.nodes[who].as_mut() { n.lstate = LState::Done; } continue; } }
                    if window == 0 { self.begin_window(who, 0, (0, 0)); } else { self.node_in(who, In::Wait(window * SLOTS_PER_WINDOW)); }
                }
                Ev::Produce { who, slot, hash, parent } => {
                    if !self.alive(who, self.now) { continue; }
                    self.blocks.push(((slot, hash), parent, who as u64));
                    let all: Vec<usize> = (0..self.n).collect();
                    self.disseminate(who, slot, hash, parent, &all);
                    if (slot + 1) % SLOTS_PER_WINDOW != 0 {
                        self.begin_block(who, slot + 1, (slot, hash));
                    } else {
                        let w = slot / SLOTS_PER_WINDOW;
                        let nw = self.leader_windows_next(w);
                        if let Some(n) = self.nodes[who].as_mut() { n.lstate = LState::Idle; }
                        let t = self.now;
                        self.push(t, Ev::LeaderStart { who, window: nw });
                    }
                }
                Ev::RepairTry { to, b, tries } => {
                    if !self.alive(to, self.now) || self.nodes[to].as_ref().unwrap().has_block.contains(&b) { continue; }
                    let holder = (0..self.n).find(|&j| j != to && self.is_correct(j) && self.nodes[j].as_ref().unwrap().has_block.contains(&b));
                    let entry = self.blocks.iter().find(|x| x.0 == b).cloned();
                    match (holder, entry) {
                        (Some(hd), Some((_, parent, _))) => {
                            self.count("repair-delivered");
                            let d1 = self.delay(to, hd).unwrap_or(DELTA());
                            let d2 = self.delay(hd, to).unwrap_or(DELTA());
                            let t = self.now + d1 + d2;
                            self.push(t, Ev::VBlock { to, slot: b.0, hash: b.1, parent });
                            self.push(t, Ev::PBlock { to, b, p: parent });
                        }
                        _ => { if tries < 40 { let t = self.now + DELTA(); self.push(t, Ev::RepairTry { to, b, tries: tries + 1 }); } }
                    }
                }
                Ev::ByzLead { who, slot, parent } => { self.byz_lead(who, slot, parent); }
            }
        }
        self.finish(id)
    }

    fn finish(self, _id: u64) -> RunResult {
        let horizon = self.horizon.unwrap_or(0);
        let strict = !self.lost_any;
        let mut traces: Vec<String> = Vec::new();
        let mut steps_total = 0;
        let mut final_fin = Vec::new();
        for i in 0..self.n {
            if self.cfg.roles[i] != Role::Correct { continue; }
            let nd = self.nodes[i].as_ref().unwrap();
            steps_total += nd.steps.len();
            final_fin.push((i, nd.last_fin));
            traces.push(format!("({}, [{}])", cf::n(i as u64), nd.steps.join("; ")));
        }
        let roles: Vec<String> = self.cfg.roles.iter().map(|r| match r { Role::Correct => "RCorrect", Role::Crashed(_) => "RCrashed", _ => "RByz" }.to_string()).collect();
        let blocks: Vec<String> = self.blocks.iter().map(|(b, p, w)| format!("({}, {}, {})", r_bid(*b), r_bid(*p), cf::n(*w))).collect();
        let st: Vec<String> = self.cfg.stakes.iter().map(|s| cf::n(*s)).collect();
        let term_body = format!("{} {} {} {} {} {} {}", cf::list(&st), cf::list(&roles), cf::n(self.cfg.gst), cf::n(horizon), cf::b(strict), cf::list(&blocks), cf::list(&traces));
        // windows the oracle will judge (same definition as Oracle/C02.v), for the statistics
        let (mut good, mut faulty) = (0, 0);
        for w in 0..horizon {
            let t0 = (0..self.n).filter(|&i| self.is_correct(i)).filter_map(|i| self.nodes[i].as_ref().unwrap().armed.get(&w).copied()).min();
            if let Some(t0) = t0 { if t0 >= self.cfg.gst { if self.is_correct((w % self.n as u64) as usize) { good += 1 } else { faulty += 1 } } }
        }
        // diagnosis of a stuck slot: some correct validator holds no certificate whatsoever for a slot above its
        // finalized slot although a block was proposed there - and that block's parent is the genesis block
        let mut genesis_child_stuck = false;
        for (b, p, _) in &self.blocks {
            if *p != (0, 0) { continue; }
            for i in 0..self.n {
                if !self.is_correct(i) { continue; }
                let nd = self.nodes[i].as_ref().unwrap();
                let any_cert = nd.certs_seen.iter().any(|(_, c)| c.starts_with(&format!("(mkCert {} ", cf::n(b.0))));
                if nd.last_fin < b.0 && !any_cert { genesis_child_stuck = true; }
            }
        }
        RunResult { genesis_child_stuck, cfg: self.cfg.clone(), horizon, strict, blocks: self.blocks.clone(), term_body, steps_total, end_time: self.now, final_fin, kinds: self.kinds.clone(), findings: self.findings.clone(), good_windows: good, faulty_windows: faulty }
    }
}

thread_local! {
    pub static DEBUG_LOG: RefCell<Vec<String>> = RefCell::new(Vec::new());
}
