//! C16: routing agreement and fault-free coverage.  Independently constructed Rotor / Turbine /
//! TrivialDisseminator instances on a recording network: the destinations of `send` / `forward` are the
//! observables.  Also records words of the real StdRng so that Lib/ChaCha.v is validated directly.
use std::collections::{HashMap, HashSet, VecDeque};
use std::net::SocketAddr;
use std::panic::{AssertUnwindSafe, catch_unwind};
use std::sync::{Arc, Mutex};

use alpenglow::all2all::TrivialAll2All;
use alpenglow::consensus::{Blockstore, ConsensusMessage, EpochInfo, ValidatorEpochInfo};
use alpenglow::crypto::aggsig;
use alpenglow::crypto::signature::SecretKey;
use alpenglow::network::localhost_ip_sockaddr;
use alpenglow::repair::{RepairRequest, RepairResponse};
use alpenglow::{Alpenglow, Disseminator, Stake, Transaction};
use alpenglow::disseminator::rotor::sampling_strategy::{FaitAccompli1Sampler, PartitionSampler};
use alpenglow::disseminator::rotor::{IidQuorumSampler, SamplingStrategy, StakeWeightedSampler};
use alpenglow::disseminator::{Rotor, TrivialDisseminator, Turbine};
use alpenglow::network::Network;
use alpenglow::shredder::{RegularShredder, Shred, Shredder, TOTAL_SHREDS};
use alpenglow::types::{Slice, SliceIndex, Slot};
use alpenglow::{ValidatorIndex, ValidatorInfo};
use rand::rngs::StdRng;
use rand::{Rng as _, SeedableRng};

use crate::c17::{InfoFactory, stakes_for};
use crate::coqfmt as cf;
use crate::rng::Rng;
use crate::{CaseSet, Stats, Tier};

// ---------------------------------------------------------------------------------------------
// recording network
// ---------------------------------------------------------------------------------------------
#[derive(Clone, Default)]
pub struct RecNet {
    /// (was send_to_many, destination ports)
    pub log: Arc<Mutex<Vec<(bool, Vec<u16>)>>>,
}

impl RecNet {
    fn drain(&self) -> Vec<(bool, Vec<u16>)> {
        std::mem::take(&mut *self.log.lock().unwrap())
    }
}

impl Network for RecNet {
    type Send = Shred;
    type Recv = Shred;

    async fn send(&self, _message: &Shred, addr: SocketAddr) -> std::io::Result<()> {
        self.log.lock().unwrap().push((false, vec![addr.port()]));
        Ok(())
    }

    async fn send_to_many(&self, _message: &Shred, addrs: impl IntoIterator<Item = SocketAddr> + Send) -> std::io::Result<()> {
        let v: Vec<u16> = addrs.into_iter().map(|a| a.port()).collect();
        self.log.lock().unwrap().push((true, v));
        Ok(())
    }

    async fn receive(&self) -> std::io::Result<Shred> {
        std::future::pending().await
    }
}

fn block_on<F: std::future::Future>(f: F) -> F::Output {
    futures::executor::block_on(f)
}

// ---------------------------------------------------------------------------------------------
// shreds with chosen coordinates
// ---------------------------------------------------------------------------------------------
pub struct ShredMaker {
    sk: SecretKey,
    shredder: RegularShredder,
    cache: HashMap<(u64, u64), Vec<Shred>>,
}

impl ShredMaker {
    pub fn new() -> Self {
        ShredMaker { sk: SecretKey::new(&mut rand::rng()), shredder: RegularShredder::default(), cache: HashMap::new() }
    }
    /// all TOTAL_SHREDS shreds of slice `slice` of slot `slot`
    pub fn shreds(&mut self, slot: u64, slice: u64) -> &Vec<Shred> {
        if !self.cache.contains_key(&(slot, slice)) {
            let slice_index: SliceIndex = wincode::deserialize(&(slice as usize).to_le_bytes()).expect("slice index in range");
            let sl = Slice { slot: Slot::new(slot), slice_index, is_last: true, parent: None, data: vec![7u8; 100] };
            let out = self.shredder.shred(&sl, &self.sk).expect("shredding");
            let v: Vec<Shred> = out.into_iter().map(|s| s.into_shred()).collect();
            if self.cache.len() > 4096 { self.cache.clear(); }
            self.cache.insert((slot, slice), v);
        }
        &self.cache[&(slot, slice)]
    }
}

/// an epoch needs a total stake that fits u64 (EpochInfo::new sums the stakes): scale oversized sets down
fn fit_total(mut stakes: Vec<u64>) -> Vec<u64> {
    while stakes.iter().map(|s| *s as u128).sum::<u128>() >= (1u128 << 63) {
        for s in stakes.iter_mut() { *s = (*s / 2).max(1); }
    }
    stakes
}

fn epoch(infos: &[ValidatorInfo], own: u64) -> Arc<ValidatorEpochInfo> {
    Arc::new(ValidatorEpochInfo::new(ValidatorIndex::new(own), EpochInfo::new(infos.to_vec())))
}

type RotorNew = Rotor<RecNet, IidQuorumSampler<StakeWeightedSampler>>;
type RotorFa1 = Rotor<RecNet, FaitAccompli1Sampler<PartitionSampler>>;

enum AnyRotor {
    New(RotorNew),
    Fa1(RotorFa1),
}

impl AnyRotor {
    fn send(&self, s: &Shred) {
        match self { AnyRotor::New(r) => block_on(r.send(s)).unwrap(), AnyRotor::Fa1(r) => block_on(r.send(s)).unwrap() }
    }
    fn forward(&self, s: &Shred) {
        match self { AnyRotor::New(r) => block_on(r.forward(s)).unwrap(), AnyRotor::Fa1(r) => block_on(r.forward(s)).unwrap() }
    }
}

impl AnyRotor {
    /// Rotor::with_sampler with the same strategy built over other stakes; None if that sampler cannot be built
    fn with_weights(self, infos: &[ValidatorInfo]) -> Option<AnyRotor> {
        let v = infos.to_vec();
        match self {
            AnyRotor::New(r) => Some(AnyRotor::New(r.with_sampler(StakeWeightedSampler::new(v).into_quorum_strategy(TOTAL_SHREDS)))),
            AnyRotor::Fa1(r) => {
                let s = catch_unwind(AssertUnwindSafe(move || FaitAccompli1Sampler::new_with_partition_fallback(v, TOTAL_SHREDS as u64))).ok()?;
                Some(AnyRotor::Fa1(r.with_sampler(s)))
            }
        }
    }
}

fn mk_rotor(fa1: bool, infos: &[ValidatorInfo], own: u64) -> Option<(AnyRotor, RecNet)> {
    let net = RecNet::default();
    let n2 = net.clone();
    let e = epoch(infos, own);
    catch_unwind(AssertUnwindSafe(move || if fa1 { AnyRotor::Fa1(Rotor::new_fa1(n2, e)) } else { AnyRotor::New(Rotor::new(n2, e)) })).ok().map(|r| (r, net))
}

/// relay an instance picks for a shred (destination of `send`), None if the call panicked
fn relay_of(r: &AnyRotor, net: &RecNet, shred: &Shred) -> Option<u64> {
    net.drain();
    let ok = catch_unwind(AssertUnwindSafe(|| r.send(shred))).is_ok();
    let log = net.drain();
    if !ok || log.len() != 1 || log[0].0 || log[0].1.len() != 1 { return None; }
    Some(log[0].1[0] as u64 - 1)
}

fn r_optn(o: &Option<u64>) -> String {
    match o { Some(v) => format!("(Some {})", cf::n(*v)), None => "None".into() }
}
fn r_list(l: &[u64]) -> String {
    cf::list(&l.iter().map(|v| cf::n(*v)).collect::<Vec<_>>())
}

struct Out {
    cases: Vec<String>,
    descr: Vec<String>,
    sigs: Vec<(u64, u64, String)>,
    stats: Stats,
    seen: HashSet<String>,
    kinds: HashMap<String, u64>,
}

impl Out {
    fn push(&mut self, txt: String, d: String, evals: u64, nontrivial: bool, kind: &str) -> u64 {
        let cid = self.cases.len() as u64;
        self.stats.evaluations += evals;
        if nontrivial && self.seen.insert(txt.clone()) { self.stats.distinct_nontrivial += 1; }
        if self.stats.samples.len() < 3 && cid % 11 == 3 { self.stats.samples.push(format!("{} -- {}", d, txt.chars().take(400).collect::<String>())); }
        *self.kinds.entry(kind.to_string()).or_default() += 1;
        self.cases.push(txt);
        self.descr.push(d);
        cid
    }
}

// ---------------------------------------------------------------------------------------------
// real nodes: Alpenglow::verif_handle_disseminator_shred is the receive path
// ---------------------------------------------------------------------------------------------
/// Network that swallows what is sent and never receives (all2all, repair, transactions).
pub struct Sink<S, R>(std::marker::PhantomData<fn(S) -> R>);
impl<S, R> Default for Sink<S, R> { fn default() -> Self { Sink(std::marker::PhantomData) } }
impl<S: Send + Sync, R: Send + Sync> Network for Sink<S, R> {
    type Send = S;
    type Recv = R;
    async fn send(&self, _m: &S, _a: SocketAddr) -> std::io::Result<()> { Ok(()) }
    async fn send_to_many(&self, _m: &S, _a: impl IntoIterator<Item = SocketAddr> + Send) -> std::io::Result<()> { Ok(()) }
    async fn receive(&self) -> std::io::Result<R> { std::future::pending().await }
}

pub struct RunResult {
    /// (shred index, deliveries in FIFO order, non-empty send_to_many calls made while forwarding)
    pub shreds: Vec<(u64, Vec<u64>, u64)>,
    /// validators whose blockstore holds every shred of the slice at the end
    pub stored: Vec<u64>,
    /// number of shreds for which the leader itself sent something when it received its own shred back
    pub leader_relayed: u64,
}

type Node<D> = Alpenglow<TrivialAll2All<Sink<ConsensusMessage, ConsensusMessage>>, D, Sink<(), Transaction>>;

async fn drive<D, F>(infos: Vec<ValidatorInfo>, sks: Vec<SecretKey>, vsks: Vec<aggsig::SecretKey>, slot: u64, leader: u64,
                     shreds: Vec<Shred>, sender: Option<D>, sender_net: RecNet, mk: F) -> Option<RunResult>
where
    D: Disseminator + Send + Sync + 'static,
    F: Fn(RecNet, Arc<ValidatorEpochInfo>) -> Option<D>,
{
    let n = infos.len() as u64;
    // the leader's sending side (BlockProducer's disseminator): possibly a reconfigured instance
    let sender = sender?;
    let mut nodes: Vec<(Node<D>, RecNet)> = Vec::new();
    for own in 0..n {
        let net = RecNet::default();
        let e = epoch(&infos, own);
        let d = mk(net.clone(), e.clone())?;
        let a2a = TrivialAll2All::new(infos.clone(), Sink::<ConsensusMessage, ConsensusMessage>::default());
        let node = Alpenglow::new(sks[own as usize].clone(), vsks[own as usize].clone(), a2a, d,
            Sink::<RepairRequest, RepairResponse>::default(), Sink::<RepairResponse, RepairRequest>::default(), e, Sink::<(), Transaction>::default());
        nodes.push((node, net));
    }
    let mut out = Vec::new();
    let mut leader_relayed = 0u64;
    for (si, shred) in shreds.iter().enumerate() {
        let mut queue: VecDeque<u64> = VecDeque::new();
        let mut deliveries: Vec<u64> = Vec::new();
        let mut broadcasts = 0u64;
        sender_net.drain();
        sender.send(shred).await.expect("send");
        for (_, d) in sender_net.drain() { for p in d { queue.push_back(p as u64 - 1); } }
        let mut steps = 0;
        while let Some(dst) = queue.pop_front() {
            steps += 1;
            if steps > 20 * n + 20 { break; }
            deliveries.push(dst);
            if dst >= n { continue; }
            let (node, net) = &nodes[dst as usize];
            net.drain();
            // the real receive path: validate, forward, store (unless we are the leader)
            node.verif_handle_disseminator_shred(shred.clone()).await.expect("handler");
            let mut sent_any = false;
            for (many, d) in net.drain() {
                if many && !d.is_empty() { broadcasts += 1; }
                if !d.is_empty() { sent_any = true; }
                for p in d { queue.push_back(p as u64 - 1); }
            }
            if dst == leader && sent_any { leader_relayed += 1; }
        }
        out.push((si as u64, deliveries, broadcasts));
    }
    tokio::task::yield_now().await;
    let mut stored = Vec::new();
    let slice0: SliceIndex = wincode::deserialize(&0usize.to_le_bytes()).expect("slice index");
    for (v, (node, _)) in nodes.iter().enumerate() {
        let bs = node.verif_blockstore();
        let g = bs.read().await;
        let Some(hash) = g.disseminated_block_hash(Slot::new(slot)).cloned() else { continue };
        let bid = (Slot::new(slot), hash);
        if (0..TOTAL_SHREDS).all(|i| g.get_shred(&bid, slice0, alpenglow::shredder::ShredIndex::new(i).unwrap()).is_some()) { stored.push(v as u64); }
    }
    Some(RunResult { shreds: out, stored, leader_relayed })
}

/// builds n real nodes with their own keys and runs all shreds of a one-slice block of `leader` through them
fn real_run(stakes: &[u64], proto: u64, fanout: u64, slot: u64, leader: u64, stale: bool) -> Option<RunResult> {
    let rt = tokio::runtime::Builder::new_current_thread().enable_all().build().expect("rt");
    let mut rng = rand::rng();
    let sks: Vec<SecretKey> = stakes.iter().map(|_| SecretKey::new(&mut rng)).collect();
    let vsks: Vec<aggsig::SecretKey> = stakes.iter().map(|_| aggsig::SecretKey::new(&mut rng)).collect();
    let infos: Vec<ValidatorInfo> = stakes.iter().enumerate().map(|(i, s)| ValidatorInfo {
        id: ValidatorIndex::new(i as u64), stake: Stake::new(*s), pubkey: sks[i].to_pk(), voting_pubkey: vsks[i].to_pk(),
        all2all_address: localhost_ip_sockaddr(0), disseminator_address: localhost_ip_sockaddr((i + 1) as u16),
        repair_requester_address: localhost_ip_sockaddr(0), repair_responder_address: localhost_ip_sockaddr(0),
    }).collect();
    let inf2 = infos.clone();
    // the leader's block: one slice, shredded with the leader's key, sent through Disseminator::send
    let slices = alpenglow::test_utils::create_random_block(Slot::new(slot), 1);
    let shreds: Vec<Shred> = RegularShredder::default().shred(&slices[0], &sks[leader as usize]).expect("shredding").into_iter().map(|s| s.into_shred()).collect();
    // `stale`: the leader's sending instance has been reconfigured there and back (with_sampler / with_fanout)
    // and has sent this very block under the other configuration before; the receiving nodes are fresh
    let alt_infos: Vec<ValidatorInfo> = infos.iter().enumerate().map(|(k, v)| { let mut x = v.clone(); x.stake = Stake::new(stakes[(k + 1) % stakes.len()] / 2 + 1 + (k as u64 % 3)); x }).collect();
    let r = catch_unwind(AssertUnwindSafe(|| rt.block_on(async move {
        let snet = RecNet::default();
        let e = epoch(&infos, leader);
        match proto {
            0 => {
                let sender = if stale {
                    let r = Rotor::new(snet.clone(), e).with_sampler(StakeWeightedSampler::new(alt_infos).into_quorum_strategy(TOTAL_SHREDS));
                    for s in &shreds { r.send(s).await.expect("send"); }
                    snet.drain();
                    r.with_sampler(StakeWeightedSampler::new(infos.clone()).into_quorum_strategy(TOTAL_SHREDS))
                } else { Rotor::new(snet.clone(), e) };
                drive(infos, sks, vsks, slot, leader, shreds, Some(sender), snet, |net, e| Some(Rotor::new(net, e))).await
            }
            1 => {
                let other = if fanout as usize == alpenglow::disseminator::turbine::DEFAULT_FANOUT { 3 } else { alpenglow::disseminator::turbine::DEFAULT_FANOUT };
                let sender = if stale {
                    let t = Turbine::new(snet.clone(), e).with_fanout(fanout as usize);
                    for s in &shreds { t.send(s).await.expect("send"); }
                    let t = t.with_fanout(other);
                    for s in &shreds { t.send(s).await.expect("send"); }
                    snet.drain();
                    t.with_fanout(fanout as usize)
                } else { Turbine::new(snet.clone(), e).with_fanout(fanout as usize) };
                drive(infos, sks, vsks, slot, leader, shreds, Some(sender), snet, move |net, e| Some(Turbine::new(net, e).with_fanout(fanout as usize))).await
            }
            2 => {
                let sender = TrivialDisseminator::new(inf2.clone(), snet.clone());
                drive(infos, sks, vsks, slot, leader, shreds, Some(sender), snet, move |net, _e| Some(TrivialDisseminator::new(inf2.clone(), net))).await
            }
            _ => {
                let i2 = infos.clone();
                let sn = snet.clone();
                let fresh = catch_unwind(AssertUnwindSafe(move || Rotor::new_fa1(sn, e))).ok();
                let alt_s = if stale { catch_unwind(AssertUnwindSafe(move || FaitAccompli1Sampler::new_with_partition_fallback(alt_infos, TOTAL_SHREDS as u64))).ok() } else { None };
                let sender = match (fresh, alt_s) {
                    (Some(r), Some(a)) => {
                        let r = r.with_sampler(a);
                        for s in &shreds { r.send(s).await.expect("send"); }
                        snet.drain();
                        catch_unwind(AssertUnwindSafe(move || FaitAccompli1Sampler::new_with_partition_fallback(i2, TOTAL_SHREDS as u64))).ok().map(|o| r.with_sampler(o))
                    }
                    (f, _) => f,
                };
                drive(infos, sks, vsks, slot, leader, shreds, sender, snet, |net, e| catch_unwind(AssertUnwindSafe(|| Rotor::new_fa1(net, e))).ok()).await
            }
        }
    })));
    drop(rt);
    match r {
        Ok(x) => x,
        // a panic inside the run: reported as a run in which nothing was delivered
        Err(_) => Some(RunResult { shreds: (0..TOTAL_SHREDS as u64).map(|i| (i, vec![stakes.len() as u64 + 7], 0)).collect(), stored: vec![], leader_relayed: 0 }),
    }
}

pub fn gen_c16(seed: u64, tier: Tier) -> CaseSet {
    let mut rng = Rng::new(seed ^ 0xC16);
    let thorough = tier == Tier::Thorough;
    let fac = InfoFactory::new();
    let mut maker = ShredMaker::new();
    let mut o = Out { cases: vec![], descr: vec![], sigs: vec![], stats: Stats::default(), seen: HashSet::new(), kinds: HashMap::new() };

    // ---------------- StdRng words (validates Lib/ChaCha.v and the u32/u64 word rule) ----------------
    for i in 0..(if thorough { 40 } else { 8 }) {
        let mut seed_bytes = [0u8; 32];
        match i {
            0 => {}
            1 => { seed_bytes[7] = 1; }
            2 => { seed_bytes[..16].copy_from_slice(b"ALPENGLOWTURBINE"); seed_bytes[23] = 9; seed_bytes[31] = 77; }
            _ => { for b in seed_bytes.iter_mut() { *b = rng.next() as u8; } }
        }
        let mut r = StdRng::from_seed(seed_bytes);
        let mut calls = Vec::new();
        // patterns that straddle the 64-word buffer boundary with an odd offset
        let pattern: Vec<bool> = match i % 3 {
            0 => (0..70).map(|_| false).collect(),
            1 => std::iter::once(false).chain((0..40).map(|_| true)).collect(),
            _ => (0..90).map(|_| rng.chance(1, 2)).collect(),
        };
        for is64 in pattern {
            let v = if is64 { r.next_u64() } else { r.next_u32() as u64 };
            calls.push(format!("({}, {})", cf::b(is64), cf::n(v)));
        }
        let txt = format!("(C16Stream {} {} {})", cf::n(o.cases.len() as u64), cf::list(&seed_bytes.iter().map(|b| cf::n(*b as u64)).collect::<Vec<_>>()), cf::list(&calls));
        let cid = o.push(txt, format!("case {}: StdRng words for seed pattern {}", o.cases.len(), i), 1, true, "stdrng-stream");
        o.sigs.push((cid, 0, "stdrng:words".into()));
    }

    // ---------------- Rotor: relay agreement between independently constructed instances ----------------
    let rotor_ns: Vec<usize> = if thorough { vec![1, 2, 3, 5, 10, 64, 100, 200, 1000, 2000] } else { vec![1, 2, 3, 5, 10, 64, 200, 1000] };
    let n_rotor = if thorough { 240 } else { 72 };
    for i in 0..n_rotor {
        let n = rotor_ns[i % rotor_ns.len()];
        let fa1 = i % 3 == 2;
        // families: 0 equal, 1 small ints, 2 heavy-tailed, 3 dominant, 4 straddle 1/64, 5 lamport scale, 6 big-plus-dust
        let fam = if fa1 { *rng.pick(&[0usize, 2, 5, 5, 2, 3, 4]) } else { (i / 3) % 7 };
        let (stakes, famname) = stakes_for(&mut rng, fam, n, TOTAL_SHREDS as u64);
        let stakes = fit_total(stakes);
        let infos = fac.infos(&stakes);
        let n = stakes.len() as u64;
        // instance A (own 0) is constructed first and queried in order
        let owns = [0u64, n - 1, rng.below(n)];
        let a = mk_rotor(fa1, &infos, owns[0]);
        let nslices = if n >= 1000 { 2 } else if thorough { 12 } else { 5 };
        let mut coords: Vec<(u64, u64, Vec<u64>)> = Vec::new();
        let mut prev: (u64, u64) = (0, 0);
        for j in 0..nslices {
            // neighbouring coordinates share the slot (other slice) or the slice (other slot): a cache or seed
            // that ignored one coordinate would hand out the neighbour's committee
            let slot = match j { 0 => 0, 1 => 0, 2 => u64::MAX - rng.below(3), 3 => prev.0, _ => if j % 2 == 0 { rng.next() >> rng.below(60) } else { prev.0 } };
            let slice = match j { 0 => 0, 1 => 1023, 2 => 1023, 3 => rng.below(1023), _ => if j % 2 == 0 { prev.1 } else { (prev.1 + 1 + rng.below(1022)) % 1024 } };
            prev = (slot, slice);
            let mut shreds: Vec<u64> = vec![0, TOTAL_SHREDS as u64 - 1];
            for _ in 0..(if n >= 1000 { 6 } else { 10 }) { shreds.push(rng.below(TOTAL_SHREDS as u64)); }
            shreds.sort(); shreds.dedup();
            coords.push((slot, slice, shreds));
        }
        let mut seen: HashMap<(u64, u64, u64), Vec<Option<u64>>> = HashMap::new();
        if let Some((ra, na)) = &a {
            for (slot, slice, shreds) in &coords {
                for sh in shreds { let s = maker.shreds(*slot, *slice)[*sh as usize].clone(); seen.entry((*slot, *slice, *sh)).or_default().push(relay_of(ra, na, &s)); }
            }
        }
        // instance B (own n-1) is constructed after A has answered everything and is queried in reverse order
        let b = mk_rotor(fa1, &infos, owns[1]);
        if let Some((rb, nb)) = &b {
            for (slot, slice, shreds) in coords.iter().rev() {
                for sh in shreds.iter().rev() { let s = maker.shreds(*slot, *slice)[*sh as usize].clone(); seen.entry((*slot, *slice, *sh)).or_default().push(relay_of(rb, nb, &s)); }
            }
        }
        // instance C (random own) answers every query twice in a row (cold, then warm cache), shreds of
        // different slices interleaved
        let c = mk_rotor(fa1, &infos, owns[2]);
        if let Some((rc, nc)) = &c {
            let maxlen = coords.iter().map(|c| c.2.len()).max().unwrap_or(0);
            for k in 0..maxlen {
                for (slot, slice, shreds) in &coords {
                    if let Some(sh) = shreds.get(k) {
                        let s = maker.shreds(*slot, *slice)[*sh as usize].clone();
                        let e = seen.entry((*slot, *slice, *sh)).or_default();
                        e.push(relay_of(rc, nc, &s));
                        e.push(relay_of(rc, nc, &s));
                    }
                }
            }
        }
        // RECONFIGURED instances (Rotor::with_sampler, the only reconfiguration entry point of Rotor): D answers
        // everything with the original sampler, is switched to the same strategy over other stakes (`alt`),
        // answers everything again, is switched back and answers a third time.  A reconfigured instance must
        // route exactly like a fresh instance with the same final configuration: D-after-switch-back like A/B/C
        // (this case), D-with-alt like a fresh, never queried instance that was given the alt sampler at once
        // (a second case whose validator set is `alt`, so the model is compared for that configuration too).
        let base_views = seen.values().map(|v| v.len()).max().unwrap_or(0);
        let alt: Vec<u64> = fit_total((0..stakes.len()).map(|k| stakes[(k + 1) % stakes.len()] / 2 + 1 + (k as u64 % 3)).collect());
        let alt_infos = fac.infos(&alt);
        let mut seen_alt: HashMap<(u64, u64, u64), Vec<Option<u64>>> = HashMap::new();
        let mut reconfigured = false;
        if a.is_some() {
            if let Some((rd, nd)) = mk_rotor(fa1, &infos, owns[2]) {
                for (slot, slice, shreds) in &coords {
                    for sh in shreds { let s = maker.shreds(*slot, *slice)[*sh as usize].clone(); seen.entry((*slot, *slice, *sh)).or_default().push(relay_of(&rd, &nd, &s)); }
                }
                let fresh_alt = mk_rotor(fa1, &infos, owns[1]).and_then(|(r, nf)| r.with_weights(&alt_infos).map(|r| (r, nf)));
                if let (Some(rd2), Some((rf, nf))) = (rd.with_weights(&alt_infos), fresh_alt) {
                    reconfigured = true;
                    // the fresh alt instance is asked in reverse order, the switched one in order, twice
                    for (slot, slice, shreds) in coords.iter().rev() {
                        for sh in shreds.iter().rev() { let s = maker.shreds(*slot, *slice)[*sh as usize].clone(); seen_alt.entry((*slot, *slice, *sh)).or_default().push(relay_of(&rf, &nf, &s)); }
                    }
                    for (slot, slice, shreds) in &coords {
                        for sh in shreds {
                            let s = maker.shreds(*slot, *slice)[*sh as usize].clone();
                            let e = seen_alt.entry((*slot, *slice, *sh)).or_default();
                            e.push(relay_of(&rd2, &nd, &s)); e.push(relay_of(&rd2, &nd, &s));
                        }
                    }
                    if let Some(rd3) = rd2.with_weights(&infos) {
                        for (slot, slice, shreds) in coords.iter().rev() {
                            for sh in shreds { let s = maker.shreds(*slot, *slice)[*sh as usize].clone(); seen.entry((*slot, *slice, *sh)).or_default().push(relay_of(&rd3, &nd, &s)); }
                        }
                    }
                }
            }
        }
        let panicked = [a.is_none(), b.is_none(), c.is_none()];
        let cid = o.cases.len() as u64;
        let mut slices_txt = Vec::new();
        let mut evals = 1u64;
        let mut disagreements = 0u64;
        for (j, (slot, slice, shreds)) in coords.iter().enumerate() {
            let mut qs = Vec::new();
            for sh in shreds {
                let v = seen.get(&(*slot, *slice, *sh)).cloned().unwrap_or_default();
                if v.is_empty() { continue; }
                let agree = v.iter().all(|x| *x == v[0] && x.is_some());
                if !agree { disagreements += 1; }
                let base_agree = v.iter().take(base_views).all(|x| *x == v[0] && x.is_some());
                o.sigs.push((cid, 1 + 100 * j as u64 + *sh, if base_agree && !agree { "rotor:relay:reconfigured-instance-differs".to_string() } else { format!("rotor-{}:relay:{}", if fa1 { "fa1" } else { "new" }, if agree { "instances-agree" } else { "instances-disagree" }) }));
                evals += v.len() as u64;
                qs.push(format!("({}, {})", cf::n(*sh), cf::list(&v.iter().map(r_optn).collect::<Vec<_>>())));
            }
            slices_txt.push(format!("({}, {}, {})", cf::n(*slot), cf::n(*slice), cf::list(&qs)));
        }
        o.sigs.push((cid, 0, format!("rotor-{}:ctor:{}", if fa1 { "fa1" } else { "new" }, if panicked.iter().any(|p| *p) { "panic" } else { "ok" })));
        let txt = format!("(C16Rotor {} {} {} {} {})", cf::n(cid), r_list(&stakes), cf::b(fa1), cf::list(&panicked.iter().map(|p| cf::b(*p)).collect::<Vec<_>>()), cf::list(&slices_txt));
        let kind = format!("rotor-{}:{}", if fa1 { "fa1" } else { "new" }, if panicked.iter().any(|p| *p) { "ctor-panic" } else if disagreements > 0 { "instances-disagree" } else { "agree" });
        o.push(txt, format!("case {}: Rotor::{} on {} validators ({}), 3 instances (own {:?}) + 1 reconfigured there and back, {} slices", cid, if fa1 { "new_fa1" } else { "new" }, n, famname, owns, coords.len()), evals, !panicked.iter().all(|p| *p), &kind);
        if reconfigured {
            // second case: the configuration reached through with_sampler(alt); first view = fresh instance
            let cid = o.cases.len() as u64;
            let mut slices_txt = Vec::new();
            let mut evals = 1u64;
            let mut differs = 0u64;
            for (j, (slot, slice, shreds)) in coords.iter().enumerate() {
                let mut qs = Vec::new();
                for sh in shreds {
                    let v = seen_alt.get(&(*slot, *slice, *sh)).cloned().unwrap_or_default();
                    if v.is_empty() { continue; }
                    let agree = v.iter().all(|x| *x == v[0] && x.is_some());
                    if !agree { differs += 1; }
                    o.sigs.push((cid, 1 + 100 * j as u64 + *sh, if agree { format!("rotor-{}:relay:instances-agree", if fa1 { "fa1" } else { "new" }) } else { "rotor:relay:reconfigured-instance-differs".to_string() }));
                    evals += v.len() as u64;
                    qs.push(format!("({}, {})", cf::n(*sh), cf::list(&v.iter().map(r_optn).collect::<Vec<_>>())));
                }
                slices_txt.push(format!("({}, {}, {})", cf::n(*slot), cf::n(*slice), cf::list(&qs)));
            }
            o.sigs.push((cid, 0, format!("rotor-{}:ctor:ok", if fa1 { "fa1" } else { "new" })));
            let txt = format!("(C16Rotor {} {} {} {} {})", cf::n(cid), r_list(&alt), cf::b(fa1), cf::list(&[cf::b(false), cf::b(false)]), cf::list(&slices_txt));
            o.push(txt, format!("case {}: Rotor::{} on {} validators switched by with_sampler to the same strategy over other stakes: fresh instance vs instance that had answered everything before the switch, {} slices", cid, if fa1 { "new_fa1" } else { "new" }, n, coords.len()), evals, true, &format!("rotor-{}:reconfigured:{}", if fa1 { "fa1" } else { "new" }, if differs > 0 { "differs" } else { "agree" }));
        }
    }

    // ---------------- Turbine: tree positions ----------------
    // incl. the boundary counts of the weighted shuffle's 16-ary sum tree (the shuffle runs over n or n - 1 validators)
    let turb_ns: Vec<usize> = if thorough { vec![1, 2, 3, 5, 10, 15, 16, 17, 18, 64, 200, 255, 256, 257, 258, 1000, 2000, 4096, 4097, 4098] } else { vec![1, 2, 3, 5, 10, 15, 16, 17, 18, 64, 200, 255, 256, 257, 258, 1000] };
    let fanouts = [1u64, 2, 3, 200];
    let n_turb = if thorough { 240 } else { 72 };
    for i in 0..n_turb {
        let n = turb_ns[i % turb_ns.len()];
        let fanout = fanouts[(i / turb_ns.len() + i) % 4];
        let fam = (i / 2) % 7;
        let (stakes, famname) = stakes_for(&mut rng, fam, n, 64);
        let mut stakes = fit_total(stakes);
        // some zero-stake validators (shuffled to the end of every tree)
        let zeros = i % 5 == 4 && stakes.len() > 2;
        if zeros { let m = stakes.len(); stakes[m - 1] = 0; stakes[m / 2] = 0; }
        let infos = fac.infos(&stakes);
        let n = stakes.len() as u64;
        let complete = n <= 17;
        let owns: Vec<u64> = if complete { (0..n).collect() } else { let mut v = vec![0, n - 1]; for _ in 0..3 { v.push(rng.below(n)); } v.sort(); v.dedup(); v };
        // THREE independently constructed instances per own id (half of them constructed with the default
        // fanout and switched afterwards); each is asked the same triples in a different order
        let mk_inst = |k: usize, own: u64| -> (Turbine<RecNet>, RecNet) {
            let net = RecNet::default();
            let t = Turbine::new(net.clone(), epoch(&infos, own));
            let t = if k % 2 == 0 { t.with_fanout(fanout as usize) } else { t.with_fanout(7).with_fanout(fanout as usize) };
            (t, net)
        };
        let insts: Vec<Vec<(Turbine<RecNet>, RecNet)>> = owns.iter().enumerate().map(|(k, own)| (0..3).map(|v| mk_inst(k + v, *own)).collect()).collect();
        // a RECONFIGURED instance per own id (Turbine::with_fanout, the only reconfiguration entry point): it
        // answers the triples under the final fanout, is switched to another fanout (to the default if the final
        // one is not the default, else to 3), answers again, is switched back and must then route exactly like
        // the fresh instances with the final fanout
        let other_fanout: usize = if fanout as usize == alpenglow::disseminator::turbine::DEFAULT_FANOUT { 3 } else { alpenglow::disseminator::turbine::DEFAULT_FANOUT };
        let mut reconf: Vec<Option<(Turbine<RecNet>, RecNet)>> = owns.iter().map(|own| { let net = RecNet::default(); Some((Turbine::new(net.clone(), epoch(&infos, *own)).with_fanout(fanout as usize), net)) }).collect();
        // triples: blocks with several slices in one slot, the same index within the slice in every slice,
        // two slots.  A tree cached under (slot, index within the slice) instead of (slot, index in the slot),
        // or under the slot alone, makes the answer depend on what was asked first.
        let slot_a = if i % 3 == 0 { 0 } else { rng.next() >> rng.below(60) };
        let slot_b = if i % 4 == 1 { u64::MAX } else { slot_a.wrapping_add(1 + rng.below(7)) };
        let sh_a = rng.below(TOTAL_SHREDS as u64);
        let sh_b = if i % 2 == 0 { TOTAL_SHREDS as u64 - 1 } else { 0 };
        let slice_c = 2 + rng.below(1022);
        let mut triples: Vec<(u64, u64, u64)> = Vec::new();
        if n >= 1000 {
            triples.push((slot_a, 0, sh_a)); triples.push((slot_a, 1, sh_a));
        } else if n >= 200 {
            for sl in [0u64, 1] { triples.push((slot_a, sl, sh_a)); }
            triples.push((slot_b, 1, sh_a)); triples.push((slot_a, 1, sh_b));
        } else {
            for slot in [slot_a, slot_b] { for sl in [0u64, 1, slice_c] { for sh in [sh_a, sh_b] { triples.push((slot, sl, sh)); } } }
            if !thorough { triples.truncate(10); }
        }
        let ntrees = triples.len();
        // query orders: instance 0 as listed (slice 0 first), instance 1 reversed (other slot first, slice 1
        // before slice 0), instance 2 grouped by shred index with the slices descending, and asked twice
        let orders: Vec<Vec<usize>> = {
            let fwd: Vec<usize> = (0..ntrees).collect();
            let mut rev = fwd.clone(); rev.reverse();
            let mut inter = fwd.clone(); inter.sort_by_key(|t| (triples[*t].2, std::cmp::Reverse(triples[*t].1), triples[*t].0));
            vec![fwd, rev, inter]
        };
        let cid = o.cases.len() as u64;
        let mut evals = 0;
        // views[tree][own] = answers of instance 0, instance 1, instance 2 (cold), instance 2 (warm)
        let mut views: Vec<Vec<Vec<Option<(u64, Vec<u64>)>>>> = vec![vec![Vec::new(); owns.len()]; ntrees];
        let ask = |t: &Turbine<RecNet>, net: &RecNet, shred: &Shred| -> Option<(u64, Vec<u64>)> {
            net.drain();
            let ok = catch_unwind(AssertUnwindSafe(|| { block_on(t.send(shred)).unwrap(); block_on(t.forward(shred)).unwrap(); })).is_ok();
            let log = net.drain();
            if ok && log.len() == 2 && !log[0].0 && log[0].1.len() == 1 && log[1].0 {
                Some((log[0].1[0] as u64 - 1, log[1].1.iter().map(|p| *p as u64 - 1).collect::<Vec<_>>()))
            } else { None }
        };
        for (v, order) in orders.iter().enumerate() {
            for t in order {
                let (slot, slice, sh) = triples[*t];
                let shred = maker.shreds(slot, slice)[sh as usize].clone();
                for k in 0..owns.len() {
                    let (inst, net) = &insts[k][v];
                    views[*t][k].push(ask(inst, net, &shred));
                    evals += 1;
                    if v == 2 { views[*t][k].push(ask(inst, net, &shred)); evals += 1; }
                }
            }
        }
        let base_views = 4usize;
        // the reconfigured instances: phase 1 (final fanout, first half of the triples), phase 2 (other fanout,
        // all triples, answers not recorded: they belong to another configuration), phase 3 (back, all triples)
        for k in 0..owns.len() {
            let (inst, net) = reconf[k].take().unwrap();
            for t in 0..ntrees.div_ceil(2) { let (slot, slice, sh) = triples[t]; let shred = maker.shreds(slot, slice)[sh as usize].clone(); let _ = ask(&inst, &net, &shred); evals += 1; }
            let inst = inst.with_fanout(other_fanout);
            for t in 0..ntrees { let (slot, slice, sh) = triples[t]; let shred = maker.shreds(slot, slice)[sh as usize].clone(); let _ = ask(&inst, &net, &shred); evals += 1; }
            let inst = inst.with_fanout(fanout as usize);
            for t in (0..ntrees).rev() { let (slot, slice, sh) = triples[t]; let shred = maker.shreds(slot, slice)[sh as usize].clone(); views[t][k].push(ask(&inst, &net, &shred)); evals += 1; }
        }
        let mut trees_txt = Vec::new();
        for (t, (slot, slice, sh)) in triples.iter().enumerate() {
            let mut obs = Vec::new();
            let mut same = true;
            let mut base_same = true;
            for (k, own) in owns.iter().enumerate() {
                let vs = &views[t][k];
                if vs.iter().any(|x| *x != vs[0]) { same = false; }
                if vs.iter().take(base_views).any(|x| *x != vs[0]) { base_same = false; }
                obs.push(format!("({}, {})", cf::n(*own), cf::list(&vs.iter().map(|g| match g { Some((r, ch)) => format!("(Some ({}, {}))", cf::n(*r), r_list(ch)), None => "None".into() }).collect::<Vec<_>>())));
            }
            let roots: HashSet<Option<u64>> = views[t].iter().map(|vs| vs[0].as_ref().map(|x| x.0)).collect();
            let class = if !same && base_same { "reconfigured-instance-differs" } else if !same { "instances-disagree" } else if roots.len() == 1 && !roots.contains(&None) { "one-view" } else { "roots-differ-or-panic" };
            o.sigs.push((cid, 1 + t as u64, format!("turbine:tree:{}", class)));
            trees_txt.push(format!("({}, {}, {}, {})", cf::n(*slot), cf::n(*slice), cf::n(*sh), cf::list(&obs)));
        }
        let txt = format!("(C16Turbine {} {} {} {} {})", cf::n(cid), r_list(&stakes), cf::n(fanout), cf::b(complete), cf::list(&trees_txt));
        o.push(txt, format!("case {}: Turbine fanout {} on {} validators ({}{}), 3 instances for each of {} own ids, {} trees (slots {} / {}, slices 0 / 1 / {})", cid, fanout, n, famname, if zeros { ", two zero stakes" } else { "" }, owns.len(), ntrees, slot_a, slot_b, slice_c), evals, true, "turbine-trees");
    }

    // ---------------- loss-free runs of real nodes (consensus.rs receive path) on the recording network ----------------
    let run_ns: Vec<usize> = if thorough { vec![1, 2, 3, 5, 10, 16, 17, 33, 64] } else { vec![1, 2, 3, 5, 10, 16, 17, 33] };
    let n_runs = if thorough { 112 } else { 36 };
    let mut leader_is_relay_runs = 0u64;
    let mut leader_inner_runs = 0u64;
    for i in 0..n_runs {
        let n = run_ns[i % run_ns.len()];
        // 0 Rotor::new, 1 Turbine, 2 trivial, 3 Rotor::new_fa1 (lamport-scale stakes so that it constructs)
        let proto = match (i / run_ns.len()) % 6 { 0 | 4 => 0u64, 1 | 2 => 1, 3 => 2, _ => 3 };
        let fanout = if proto == 1 { fanouts[(i + i / 7) % 4] } else { 0 };
        let fam3 = if rng.chance(1, 2) { 2usize } else { 5 };
        let (stakes, famname) = if proto == 3 { stakes_for(&mut rng, fam3, n, 64) } else { stakes_for(&mut rng, (i / 3) % 7, n, 64) };
        let mut stakes = fit_total(stakes);
        let n = stakes.len() as u64;
        // every other run: a heavy validator that is also the leader of the slot, so that the leader is
        // its own relay for most shreds (Rotor) / sits near the root of most trees (Turbine)
        let heavy = i % 2 == 0 && n >= 2;
        let hv = rng.below(n);
        if heavy { let rest: u64 = stakes.iter().sum::<u64>().min(1 << 60); stakes[hv as usize] = rest.saturating_mul(3).max(3); }
        let stakes = fit_total(stakes);
        let slot = if heavy { 4 * (hv + n * rng.below(5)) + rng.below(4) + if hv == 0 && n == 1 { 4 } else { 0 } } else { 1 + (rng.next() >> (4 + rng.below(56))) };
        let slot = slot.max(1);
        let slice = 0u64;
        let leader = (slot / 4) % n;
        let cid = o.cases.len() as u64;
        let stale = i % 3 == 1 && proto != 2;
        let res = real_run(&stakes, proto, fanout, slot, leader, stale);
        let mut shreds_txt = Vec::new();
        let mut evals = 0;
        let name = ["rotor-new", "turbine", "trivial", "rotor-fa1"][proto as usize];
        match res {
            None => {
                // the disseminator could not be constructed (Rotor::new_fa1): covered by the Rotor cases
                continue;
            }
            Some(r) => {
                if r.leader_relayed > 0 { if proto == 1 { leader_inner_runs += 1; } else if proto != 2 { leader_is_relay_runs += 1; } }
                for (si, deliveries, broadcasts) in &r.shreds {
                    evals += 1;
                    let mut cnt = vec![0u64; n as usize];
                    for d in deliveries { if (*d as usize) < cnt.len() { cnt[*d as usize] += 1; } }
                    let good = (0..n).all(|v| if v == leader && (proto == 0 || proto == 3) { cnt[v as usize] <= 1 } else { cnt[v as usize] == 1 && (v == leader || r.stored.contains(&v)) })
                        && deliveries.iter().all(|d| *d < n);
                    o.sigs.push((cid, *si + 1, format!("run:{}:{}", name, if good { "everyone-exactly-once" } else { "coverage-broken" })));
                    shreds_txt.push(format!("({}, {}, {})", cf::n(*si), r_list(deliveries), cf::n(*broadcasts)));
                }
                let txt = format!("(C16Run {} {} {} {} {} {} {} {})", cf::n(cid), r_list(&stakes), cf::n(proto), cf::n(fanout), cf::n(slot), cf::n(slice), r_list(&r.stored), cf::list(&shreds_txt));
                o.push(txt, format!("case {}: loss-free run of real nodes, {} on {} validators ({}{}), slot {} slice {} leader {}{}, leader relayed {} of its own shreds", cid, match proto { 0 => "Rotor::new".to_string(), 1 => format!("Turbine fanout {}", fanout), 2 => "TrivialDisseminator".to_string(), _ => "Rotor::new_fa1".to_string() }, n, famname, if heavy { ", heavy leader" } else { "" }, slot, slice, leader, if stale { ", sending side reconfigured there and back after having sent the block" } else { "" }, r.leader_relayed), evals, true, &format!("run:{}", name));
            }
        }
    }
    o.stats.distribution.push(("runs_where_the_leader_relays_its_own_shreds".into(), format!("rotor={}, turbine-inner-node={}", leader_is_relay_runs, leader_inner_runs)));

    o.stats.rule = "StdRng word streams for fixed and random seeds under u32 / u64 call patterns that straddle the 64-word buffer; Rotor: n in {1,2,3,5,10,64,200,1000} (thorough: also 100, 2000), the stake families of C17, both constructors (Rotor::new, Rotor::new_fa1), three independently constructed instances per configuration plus one that answers everything, is switched by with_sampler to the same strategy over other stakes, answers again (compared with a fresh instance of that configuration and with the model for it), is switched back and answers a third time (own id 0 / n-1 / random; constructed before, between and after the other instances' queries; queried in order, in reverse order, and twice in a row with the slices interleaved = cold and warm cache), slots 0 / small / 2^64-1.. / random magnitudes, slices 0 / 1023 / random, shreds 0 / 63 / random; Turbine: n in {1,2,3,5,10,17,64,200,1000}, fanouts {1,2,3,200}, three independently constructed instances plus one reconfigured by with_fanout to another fanout and back (after answering under both) per own id (every validator for n <= 17 = complete trees, otherwise own ids 0, n-1 and three random ones), triples = two slots x slices {0, 1, random} x two indices within the slice, asked in three different orders (as listed / reversed: other slot and slice 1 first / grouped by index with slices descending, each twice = cold and warm cache), instances reconfigured through with_fanout, zero-stake validators in every fifth configuration; loss-free runs of REAL Alpenglow nodes (own keys, blockstore, pool, votor; every datagram recorded on the network is handed to the addressed node's handle_disseminator_shred) for all 64 shreds of a one-slice block signed by the slot's leader, n in {1,2,3,5,10,33} (thorough: 64), Rotor::new / Rotor::new_fa1 / Turbine (4 fanouts) / trivial, every other run with a heavy validator that leads the slot (leader = relay, leader = inner tree node), every third run with a sending side that was reconfigured (with_sampler / with_fanout) there and back after having sent the block under the other configuration, FIFO delivery until quiescence, blockstores inspected afterwards; non-trivial = at least one instance constructed; distinct by content".into();
    let mut v: Vec<_> = o.kinds.iter().collect(); v.sort();
    o.stats.distribution.push(("case_kinds".into(), v.iter().map(|(k, c)| format!("{}={}", k, c)).collect::<Vec<_>>().join(", ")));
    CaseSet { header: "From AG Require Import Model.Sampling Model.Routing Oracle.C16.\n".to_string(), runner: "c16_run".to_string(), defs: Vec::new(), cases: o.cases, descr: o.descr, sigs: o.sigs, stats: o.stats }
}
