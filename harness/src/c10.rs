//! C10: hostile input on every interface, against the REAL components and a real cluster.
//!   pipe    shreds of honest and Byzantine-signed blocks through the node's shred path: ValidatedShred::try_new
//!           (with the cached commitment) -> BlockstoreImpl -> PoolImpl::add_block -> Votor (cfg hooks)
//!   repair  the hostile response / request generators of C14
//!   pool    consistent histories + far-future / pruned / equivocating votes and certificates -> real PoolImpl,
//!           every emitted event handed to a real Votor
//!   votor   blockstore events and time-outs for extreme slots (u64 arithmetic)
//!   prod    the REAL produce_slice_payload / apply_parent_ready (cfg hooks) on scripted transaction sources
//!   node    clusters of real `Alpenglow` nodes over `SimulatedNetwork` with one Byzantine validator (real keys)
//!           and an outside attacker on all five interfaces; a process-wide panic hook records every task panic,
//!           finalized slots are read before / after the hostile phase and a repair request is sent afterwards
use std::collections::{HashMap, HashSet};
use std::net::SocketAddr;
use std::panic::{AssertUnwindSafe, catch_unwind};
use std::sync::{Arc, Mutex};
use std::time::{Duration, Instant};

use alpenglow::all2all::TrivialAll2All;
use alpenglow::consensus::{
    Alpenglow, Blockstore, BlockstoreEvent, BlockstoreImpl, Cert, ConsensusMessage, EpochInfo, FastFinalCert, FinalCert,
    FinalVote, NotarCert, NotarFallbackCert, NotarFallbackVote, NotarVote, Pool, PoolEvent, PoolImpl, SharedPool,
    SkipCert, SkipVote, ValidatorEpochInfo, Vote, Votor,
};
use alpenglow::crypto::merkle::{BlockHash, DoubleMerkleTree, MerkleRoot, SliceMerkleTree, SliceRoot};
use alpenglow::crypto::{Hash, aggsig, signature};
use alpenglow::disseminator::Rotor;
use alpenglow::network::simulated::SimulatedNetworkCore;
use alpenglow::network::{Network, SimulatedNetwork, localhost_ip_sockaddr};
use alpenglow::repair::{RepairRequest, RepairRequestType, RepairResponse};
use alpenglow::shredder::{RegularShredder, Shred, ShredIndex, Shredder, ValidatedShred};
use alpenglow::types::{Slice, SliceIndex, Slot};
use alpenglow::{BlockId, Stake, Transaction, ValidatorIndex, ValidatorInfo};
use tokio::sync::mpsc;

use crate::c13::{self, BuiltSlice, SliceSpec};
use crate::c14;
use crate::coqfmt as cf;
use crate::pool::{self, CK, Op, VK, hash_of};
use crate::poolgen::{self, KeyRing};
use crate::rng::Rng;
use crate::votor::{self, Recorder, VIn};
use crate::{CaseSet, Stats, Tier};

const SPW: u64 = pool::SLOTS_PER_WINDOW;
const EPOCH2: u64 = 2 * alpenglow::types::slot::SLOTS_PER_EPOCH;

fn vi(i: u64) -> ValidatorIndex { ValidatorIndex::new(i) }
fn slice_index(i: u64) -> SliceIndex { wincode::deserialize::<SliceIndex>(&i.to_le_bytes()).expect("slice index in range") }
fn shred_index(i: u64) -> ShredIndex { wincode::deserialize::<ShredIndex>(&i.to_le_bytes()).expect("shred index in range") }
fn any_hash(tag: u64) -> BlockHash {
    let mut b = [0u8; 32];
    b[..8].copy_from_slice(&tag.to_be_bytes());
    b[31] = 0xA5;
    let h: Hash = wincode::deserialize(&b).expect("32 bytes");
    h.into()
}

/// process-wide record of task panics (message incl. location)
pub static PANICS: Mutex<Vec<String>> = Mutex::new(Vec::new());
fn install_hook() {
    std::panic::set_hook(Box::new(|info| {
        let s = format!("{}", info);
        *crate::LAST_PANIC.lock().unwrap() = s.clone();
        // attribution: the cluster runtimes name their threads
        let t = std::thread::current().name().unwrap_or("?").to_string();
        PANICS.lock().unwrap().push(format!("[{}] {}", t, s));
    }));
}
/// stable description of a panic: source file + first line of the message
fn panic_sig(p: &str) -> String {
    let file = p.split("/src/").nth(1).and_then(|x| x.split(':').next()).unwrap_or("?").to_string();
    let msg = p.lines().nth(1).unwrap_or("").trim();
    let file = if file == "?" { p.split("src/").nth(1).and_then(|x| x.split(':').next()).unwrap_or("?").to_string() } else { file };
    let msg: String = msg.chars().take(48).map(|c| if c.is_ascii_alphanumeric() { c } else { '-' }).collect();
    format!("{}:{}", file.replace('/', "-"), msg)
}

// =====================================================================================================
// custom (Byzantine-signed) shreds over arbitrary shard contents
// =====================================================================================================
fn shred_wire(is_data: bool, slot: u64, index: u64, last: bool, sidx: u64, data: &[u8], sig: &[u8], proof: &[Vec<u8>]) -> Vec<u8> {
    let mut b = Vec::new();
    b.extend_from_slice(&(if is_data { 0u32 } else { 1u32 }).to_le_bytes());
    b.extend_from_slice(&slot.to_le_bytes());
    b.extend_from_slice(&index.to_le_bytes());
    b.push(last as u8);
    b.extend_from_slice(&sidx.to_le_bytes());
    b.extend_from_slice(&(data.len() as u64).to_le_bytes());
    b.extend_from_slice(data);
    b.extend_from_slice(sig);
    b.extend_from_slice(&(proof.len() as u64).to_le_bytes());
    for h in proof { b.extend_from_slice(h); }
    b
}
/// Shreds a (malicious) leader signs over arbitrary shard contents; `tags[i]` = marked "data".
fn custom_shreds(sk: &signature::SecretKey, slot: u64, index: u64, last: bool, shards: &[Vec<u8>], tags: &dyn Fn(usize) -> bool) -> Vec<Shred> {
    let tree = SliceMerkleTree::new(shards.iter());
    let root: SliceRoot = tree.get_root();
    let mut c = Vec::new();
    c.extend_from_slice(&slot.to_le_bytes());
    c.extend_from_slice(&index.to_le_bytes());
    c.push(last as u8);
    c.extend_from_slice(root.as_ref());
    let sig = wincode::serialize(&sk.sign_bytes(&c)).unwrap();
    let mut out = Vec::new();
    for (i, d) in shards.iter().enumerate() {
        let p = tree.create_proof(i);
        let hs: &[Hash] = p.as_ref();
        let proof: Vec<Vec<u8>> = hs.iter().map(|h| h.as_ref().to_vec()).collect();
        if let Ok(s) = wincode::deserialize::<Shred>(&shred_wire(tags(i), slot, index, last, i as u64, d, &sig, &proof)) { out.push(s); }
    }
    out
}

// =====================================================================================================
// stream 1: the shred path  (validation glue -> blockstore -> pool.add_block -> votor)
// =====================================================================================================
struct EdKeys { ed: Vec<signature::SecretKey>, epoch: Arc<ValidatorEpochInfo>, bls0: aggsig::SecretKey }
fn ed_keys(n: usize) -> EdKeys {
    let mut rng = rand::rng();
    let ed: Vec<signature::SecretKey> = (0..n).map(|_| signature::SecretKey::new(&mut rng)).collect();
    let bls: Vec<aggsig::SecretKey> = (0..n).map(|_| aggsig::SecretKey::new(&mut rng)).collect();
    let infos: Vec<ValidatorInfo> = (0..n).map(|i| ValidatorInfo {
        id: vi(i as u64), stake: Stake::new(1), pubkey: ed[i].to_pk(), voting_pubkey: bls[i].to_pk(),
        all2all_address: localhost_ip_sockaddr(0), disseminator_address: localhost_ip_sockaddr(0),
        repair_requester_address: localhost_ip_sockaddr(0), repair_responder_address: localhost_ip_sockaddr(0),
    }).collect();
    // own = the last validator: never the leader of the slots used below (leader = window % n)
    let epoch = Arc::new(ValidatorEpochInfo::new(vi(n as u64 - 1), EpochInfo::new(infos)));
    EdKeys { ed, epoch, bls0: bls[n - 1].clone() }
}

struct PipeOut { txt: String, blocks_announced: u64, invalid_announced: u64, dropped_by_validation: u64, pool_panics: u64, votor_panics: u64, bs_panics: u64, served: bool, shapes: Vec<&'static str>, votes: usize }

fn pipe_case(rng: &mut Rng, keys: &EdKeys, id: u64) -> PipeOut {
    let rt = tokio::runtime::Builder::new_current_thread().enable_all().build().expect("rt");
    let (btx, mut brx) = mpsc::channel::<BlockstoreEvent>(1 << 14);
    let (ptx, mut prx) = mpsc::channel::<PoolEvent>(1 << 14);
    let (rtx, mut rrx) = mpsc::channel::<BlockId>(1 << 14);
    let mut bs = BlockstoreImpl::new(btx);
    let mut pool = PoolImpl::new(keys.epoch.clone(), ptx, rtx);
    let rec = Arc::new(Recorder::default());
    let (_p2, prx2) = mpsc::channel::<PoolEvent>(4);
    let (_b2, brx2) = mpsc::channel::<BlockstoreEvent>(4);
    let own = keys.epoch.own_id();
    let mut votor = { let _g = rt.enter(); Votor::new(own, keys.bls0.clone(), prx2, brx2, rec.clone()) };
    let n = keys.ed.len() as u64;
    // 2..4 blocks in increasing slots; the last one is honest (the node must still reconstruct it)
    let nblocks = rng.range(2, 4);
    let mut slot = rng.range(1, 3);
    let mut blocks_txt = Vec::new();
    let (mut blocks_announced, mut invalid_announced, mut dropped, mut pool_panics, mut votor_panics, mut bs_panics) = (0u64, 0u64, 0u64, 0u64, 0u64, 0u64);
    let mut shapes = Vec::new();
    let mut served = false;
    for bi in 0..nblocks {
        // now and then the last (honest) block lies in the last leader window of the u64 range
        if bi + 1 == nblocks && rng.chance(1, 4) { slot = u64::MAX - rng.below(SPW); }
        let leader = (slot / SPW) % n;
        let sk = &keys.ed[leader as usize];
        let pk = keys.epoch.epoch_info().leader(Slot::new(slot)).pubkey;
        let (specs, shape) = loop {
            // (the shape generator adds to the slot: keep its arithmetic away from 2^64; parents then lie 8+ slots back)
            let (sp, sh) = c13::block_shape(rng, if slot > u64::MAX - 8 { slot - 8 } else { slot });
            // the data/coding tag finding belongs to C12 (known finding C12-tag-unbound)
            if sh == "honest-tag-flip" { continue; }
            if bi + 1 == nblocks && !sh.starts_with("honest") { continue; }
            break (sp, sh);
        };
        shapes.push(shape);
        let built: Vec<BuiltSlice> = specs.iter().map(|s| c13::build_slice(rng, slot, sk, s)).collect();
        let dels = c13::deliveries(rng, &built, shape);
        let mut roots: Vec<Vec<u8>> = Vec::new();
        let mut rid = |r: &SliceRoot| -> u64 { let b = r.as_hash().as_ref().to_vec(); if let Some(i) = roots.iter().position(|x| *x == b) { i as u64 + 1 } else { roots.push(b); roots.len() as u64 } };
        let mut content = Vec::new();
        for b in &built {
            let e = format!("({}, (DecOk {} {}))", cf::n(rid(&b.root)), cf::opt(b.spec.parent.map(pool::r_bid)), cf::b(b.spec.txs_ok));
            if !content.contains(&e) { content.push(e); }
        }
        let mut steps = Vec::new();
        let mut block_here = false;
        for d in &dels {
            let c13::Deliver::Dissem(si, k, _) = d else { continue };
            let b = &built[*si];
            let shred: Shred = b.shreds[*k].as_shred().clone();
            // --- the glue of Alpenglow::handle_disseminator_shred ---
            let cached = bs.cached_commitment(Slot::new(slot), slice_index(b.spec.idx));
            let validated = match ValidatedShred::try_new(shred, cached.as_ref(), &pk) { Ok(v) => v, Err(_) => { dropped += 1; continue } };
            let is_data = validated.is_data();
            let res = { let bsr = &mut bs; let rt2 = &rt; catch_unwind(AssertUnwindSafe(|| rt2.block_on(bsr.add_shred_from_dissemination(validated)))) };
            let ret_kind = match &res {
                Err(_) => { bs_panics += 1; 9 }
                Ok(Ok(None)) => 0,
                Ok(Ok(Some(_))) => 1,
                Ok(Err(alpenglow::consensus::AddShredError::Duplicate)) => 2,
                Ok(Err(alpenglow::consensus::AddShredError::Equivocation)) => 3,
                Ok(Err(alpenglow::consensus::AddShredError::InvalidShred)) => 4,
            };
            if let Ok(Ok(Some(info))) = &res {
                let bid = (Slot::new(slot), info.verif_hash().clone());
                let par = info.verif_parent().clone();
                let pr = &mut pool; let rt2 = &rt;
                if catch_unwind(AssertUnwindSafe(|| rt2.block_on(pr.add_block(bid, par)))).is_err() { pool_panics += 1; }
            }
            // events -> Votor, in the order the channels deliver them
            let mut evk = Vec::new();
            while let Ok(e) = brx.try_recv() {
                evk.push(match &e { BlockstoreEvent::FirstShred(_) => 0u64, BlockstoreEvent::Block { .. } => { blocks_announced += 1; block_here = true; 1 } BlockstoreEvent::InvalidBlock(_) => { invalid_announced += 1; 2 } });
                let v = &mut votor; let rt2 = &rt;
                if catch_unwind(AssertUnwindSafe(|| rt2.block_on(v.verif_blockstore_event(e)))).is_err() { votor_panics += 1; }
            }
            while let Ok(e) = prx.try_recv() {
                let v = &mut votor; let rt2 = &rt;
                if catch_unwind(AssertUnwindSafe(|| rt2.block_on(v.verif_pool_event(e)))).is_err() { votor_panics += 1; }
            }
            while rrx.try_recv().is_ok() {}
            steps.push(format!("(mkP10 (mkBS {} {} {} {} {} {}) {} {})", cf::n(b.spec.idx), cf::b(b.spec.last), cf::n(rid(&b.root)), cf::n(*k as u64), cf::b(is_data), cf::n(b.size), cf::n(ret_kind), cf::list(&evk.iter().map(|x| cf::n(*x)).collect::<Vec<_>>())));
            if ret_kind == 9 { break; }
        }
        if bi + 1 == nblocks { served = block_here || !dels_cover(&dels, &built); }
        blocks_txt.push(format!("({}, {}, {})", cf::n(slot), cf::list(&content), cf::list(&steps)));
        slot = slot.saturating_add(rng.range(1, 6));
        // now and then a slot whose leader signs malformed shards (odd / empty / oversize / unequal sizes, swapped
        // data / coding tags, payload without padding marker): they pass signature validation and must be refused by
        // the layout / size guards in front of the Reed-Solomon decoder
        if bi + 1 < nblocks && rng.chance(1, 2) {
            let leader = (slot / SPW) % n;
            let sk = &keys.ed[leader as usize];
            let pk = keys.epoch.epoch_info().leader(Slot::new(slot)).pubkey;
            let variant = rng.below(8);
            let (shards, swap, vname): (Vec<Vec<u8>>, bool, &'static str) = match variant {
                0 => ((0..64u8).map(|i| vec![i; 33]).collect(), false, "malformed-odd-size"),
                1 => ((0..64u8).map(|_| vec![]).collect(), false, "malformed-empty"),
                2 => ((0..64u8).map(|i| vec![i; 1]).collect(), false, "malformed-one-byte"),
                3 => ((0..64u8).map(|i| vec![i; 1026]).collect(), false, "malformed-oversize"),
                4 => ((0..64u8).map(|i| vec![i; 64 + (i as usize % 3) * 2]).collect(), false, "malformed-unequal-sizes"),
                5 => ((0..64u8).map(|i| vec![i; 64]).collect(), true, "malformed-tags-swapped"),
                6 => ((0..64u8).map(|_| vec![0u8; 64]).collect(), false, "malformed-no-padding-marker"),
                _ => ((0..64u8).map(|i| vec![i ^ 0x5A; 128]).collect(), false, "malformed-inconsistent-coding"),
            };
            shapes.push(vname);
            let idx = rng.below(3);
            let last = rng.chance(1, 2);
            let shreds = custom_shreds(sk, slot, idx, last, &shards, &|i| (i < 32) != swap);
            let mut order: Vec<usize> = (0..shreds.len()).collect();
            rng.shuffle(&mut order);
            let take = *rng.pick(&[2usize, 31, 32, 33, 40, 64]);
            let mut steps = Vec::new();
            for &k in order.iter().take(take) {
                let cached = bs.cached_commitment(Slot::new(slot), slice_index(idx));
                let validated = match ValidatedShred::try_new(shreds[k].clone(), cached.as_ref(), &pk) { Ok(v) => v, Err(_) => { dropped += 1; continue } };
                let is_data = validated.is_data();
                let res = { let bsr = &mut bs; let rt2 = &rt; catch_unwind(AssertUnwindSafe(|| rt2.block_on(bsr.add_shred_from_dissemination(validated)))) };
                let ret_kind = match &res {
                    Err(_) => { bs_panics += 1; 9 }
                    Ok(Ok(None)) => 0, Ok(Ok(Some(_))) => 1,
                    Ok(Err(alpenglow::consensus::AddShredError::Duplicate)) => 2,
                    Ok(Err(alpenglow::consensus::AddShredError::Equivocation)) => 3,
                    Ok(Err(alpenglow::consensus::AddShredError::InvalidShred)) => 4,
                };
                let mut evk = Vec::new();
                while let Ok(e) = brx.try_recv() {
                    evk.push(match &e { BlockstoreEvent::FirstShred(_) => 0u64, BlockstoreEvent::Block { .. } => { blocks_announced += 1; 1 } BlockstoreEvent::InvalidBlock(_) => { invalid_announced += 1; 2 } });
                    let v = &mut votor; let rt2 = &rt;
                    if catch_unwind(AssertUnwindSafe(|| rt2.block_on(v.verif_blockstore_event(e)))).is_err() { votor_panics += 1; }
                }
                steps.push(format!("(mkP10 (mkBS {} {} 1%N {} {} {}) {} {})", cf::n(idx), cf::b(last), cf::n(k as u64), cf::b(is_data), cf::n(shards[k].len() as u64), cf::n(ret_kind), cf::list(&evk.iter().map(|x| cf::n(*x)).collect::<Vec<_>>())));
                if ret_kind == 9 { break; }
            }
            blocks_txt.push(format!("({}, [(1%N, DecErr)], {})", cf::n(slot), cf::list(&steps)));
            slot += rng.range(1, 3);
        }
    }
    let votes = rec.log.lock().unwrap().len();
    let txt = format!("(C10Pipe {} {} {} {} {})", cf::n(id), cf::list(&blocks_txt), cf::n(pool_panics), cf::n(votor_panics), cf::b(served));
    PipeOut { txt, blocks_announced, invalid_announced, dropped_by_validation: dropped, pool_panics, votor_panics, bs_panics, served, shapes, votes }
}
/// every slice received at least DATA_SHREDS distinct shreds (then an honest block must be announced)
fn dels_cover(dels: &[c13::Deliver], built: &[BuiltSlice]) -> bool {
    (0..built.len()).all(|si| {
        let s: HashSet<usize> = dels.iter().filter_map(|d| if let c13::Deliver::Dissem(x, k, _) = d { if *x == si { Some(*k) } else { None } } else { None }).collect();
        s.len() >= alpenglow::shredder::DATA_SHREDS
    })
}

// =====================================================================================================
// stream 3: consensus messages -> pool -> votor
// =====================================================================================================
fn hostile_pool_ops(rng: &mut Rng, stakes: &[u64], max_slot: u64) -> Vec<(Op, &'static str)> {
    let n = stakes.len() as u64;
    // the validator with the smallest stake plays the Byzantine one - only if it holds less than 20% of the stake
    // (the property's fault assumption); everybody may send messages the window check refuses
    let byz = (0..n).min_by_key(|i| stakes[*i as usize]).unwrap();
    let total: u128 = stakes.iter().map(|x| *x as u128).sum();
    let byz_ok = (stakes[byz as usize] as u128) * 5 < total;
    let mut ops = Vec::new();
    // refused by the window check whatever the history did: finalized <= max_slot
    let oob = [EPOCH2 + max_slot, EPOCH2 + max_slot + 1, EPOCH2 + max_slot + SPW, 1 << 32, 1 << 63, u64::MAX - 4, u64::MAX - 3, u64::MAX];
    for _ in 0..rng.range(2, 6) {
        let slot = *rng.pick(&oob);
        let kind = *rng.pick(&[VK::Notar, VK::NotarFb, VK::Skip, VK::SkipFb, VK::Final]);
        ops.push((Op::Vote { slot, kind, hash: rng.range(1, 3), signer: rng.below(n) }, "vote-beyond-window"));
    }
    for _ in 0..rng.range(1, 3) {
        let slot = *rng.pick(&oob);
        let q: Vec<u64> = (0..n).collect();
        let kind = *rng.pick(&[CK::Notar, CK::NotarFb, CK::Skip, CK::FastFinal, CK::Final]);
        let (s1, s2) = match kind { CK::Skip => (vec![], q.clone()), _ => (q.clone(), vec![]) };
        ops.push((Op::Cert { slot, kind, hash: 7, s1, s2 }, "cert-beyond-window"));
    }
    if byz_ok {
        // far ahead but inside the window (state for a far-away slot is created), old / pruned slots, and
        // equivocation in every way inside a live slot
        for _ in 0..rng.range(1, 4) {
            let slot = *rng.pick(&[EPOCH2 - 1, EPOCH2 - 2, EPOCH2 / 2, max_slot + 40]);
            ops.push((Op::Vote { slot, kind: *rng.pick(&[VK::Notar, VK::NotarFb, VK::Skip, VK::SkipFb, VK::Final]), hash: rng.range(1, 3), signer: byz }, "vote-far-future"));
        }
        for _ in 0..rng.range(1, 4) {
            ops.push((Op::Vote { slot: rng.range(0, 2), kind: *rng.pick(&[VK::Notar, VK::Skip, VK::Final]), hash: 1, signer: byz }, "vote-old"));
        }
        let s = rng.range(1, max_slot.max(1));
        for (k, h) in [(VK::Notar, 91u64), (VK::Notar, 92), (VK::Skip, 0), (VK::Final, 0), (VK::NotarFb, 93), (VK::SkipFb, 0), (VK::Notar, 91)] {
            if rng.chance(3, 4) { ops.push((Op::Vote { slot: s, kind: k, hash: h, signer: byz }, "vote-equivocation")); }
        }
    }
    ops
}

struct PoolOut { txt: String, votor_panics: u64, pool_panics: u64, kinds: Vec<String>, finalized: u64, hostile: usize }

fn pool_case(rng: &mut Rng, ring: &mut KeyRing, id: u64) -> PoolOut {
    let (mut stakes, _fam) = poolgen::stake_family(rng);
    let mut own = rng.below(stakes.len() as u64);
    let mut w = poolgen::world(rng, &stakes, own, false, true, true);
    let mut hostile = hostile_pool_ops(rng, &stakes, w.max_slot);
    if rng.chance(1, 10) {
        // certificate reordering around an equivocating leader (two blocks in one slot, the registered one loses):
        // the child (s+1, x) waits for its parent (s, p); slot s+1 is decided and pruned for another block before the
        // parent's notarization arrives.  (599595f: the pinned tree panicked "parent not known" here.)
        stakes = vec![1; 5];
        own = rng.below(5);
        let s = rng.range(1, 3);
        let q3: Vec<u64> = { let mut v: Vec<u64> = (0..5).collect(); rng.shuffle(&mut v); v.truncate(3); v.sort(); v };
        let q4: Vec<u64> = { let mut v: Vec<u64> = (0..5).collect(); rng.shuffle(&mut v); v.truncate(4); v.sort(); v };
        let mut ops = vec![
            Op::Block { b: (s + 1, 22), p: (s, 11) },
            Op::Cert { slot: s, kind: CK::Final, hash: 0, s1: q3.clone(), s2: vec![] },
            Op::Cert { slot: s + 1, kind: CK::FastFinal, hash: 23, s1: q4.clone(), s2: vec![] },
            Op::Cert { slot: s + 2, kind: CK::FastFinal, hash: 34, s1: q4.clone(), s2: vec![] },
        ];
        if rng.chance(1, 2) { ops.push(Op::Block { b: (s + 2, 34), p: (s + 1, 23) }); }
        if rng.chance(1, 2) { ops.push(Op::Block { b: (s + 1, 23), p: (s, 11) }); }
        ops.push(Op::Cert { slot: s, kind: CK::Notar, hash: 11, s1: q3.clone(), s2: vec![] });
        ops.push(Op::Standstill);
        w = poolgen::World { ops, max_slot: s + 2 };
        hostile = Vec::new();
    }
    // interleave hostile operations at random positions of the consistent history
    let scripted = hostile.is_empty();
    let mut ops: Vec<(Op, &'static str)> = w.ops.into_iter().map(|o| (o, if scripted { "reordered-certs-equivocating-leader" } else { "history" })).collect();
    let nh = if scripted { ops.len() } else { hostile.len() };
    for h in hostile { let pos = rng.below(ops.len() as u64 + 1) as usize; ops.insert(pos, h); }
    let keys = ring.get(stakes.len());
    let epoch = keys.epoch(&stakes, own);
    let mut runner = pool::Runner::new(epoch);
    runner.slot_cap = w.max_slot + 2 * SPW;
    runner.max_slot = runner.max_slot.max(w.max_slot);
    // a real Votor fed with everything the pool emits
    let rt = tokio::runtime::Builder::new_current_thread().enable_all().build().expect("rt");
    let rec = Arc::new(Recorder::default());
    let (_p2, prx2) = mpsc::channel::<PoolEvent>(4);
    let (_b2, brx2) = mpsc::channel::<BlockstoreEvent>(4);
    let mut votor = { let _g = rt.enter(); Votor::new(vi(own), keys.sks[own as usize].clone(), prx2, brx2, rec.clone()) };
    let (mut votor_panics, mut pool_panics) = (0u64, 0u64);
    let mut steps = Vec::new();
    let mut kinds = Vec::new();
    let mut finalized = 0;
    for (op, kind) in &ops {
        let o = runner.step(keys, op);
        kinds.push(format!("{}:{}", kind, if o.panicked { "panic".to_string() } else { o.verdict.clone() }));
        for e in &o.events {
            let v = &mut votor; let rt2 = &rt; let ev = e.clone();
            if catch_unwind(AssertUnwindSafe(|| rt2.block_on(v.verif_pool_event(ev)))).is_err() { votor_panics += 1; }
        }
        finalized = finalized.max(o.finalized);
        steps.push(pool::r_step(&o));
        if o.panicked { pool_panics += 1; break; }
    }
    let st: Vec<String> = stakes.iter().map(|s| cf::n(*s)).collect();
    let txt = format!("(C10Pool (PCase {} {} {} {}) {})", cf::n(id), cf::list(&st), cf::n(own), cf::list(&steps), cf::n(votor_panics));
    PoolOut { txt, votor_panics, pool_panics, kinds, finalized, hostile: nh }
}

// =====================================================================================================
// stream 4: Votor with extreme slots
// =====================================================================================================
fn votor_extreme(rng: &mut Rng) -> (Vec<VIn>, bool) {
    let mut ins = votor::scenario(rng);
    let safe = [u64::MAX - 4, u64::MAX - 5, u64::MAX - 7, 1 << 63, (1 << 63) - 1, EPOCH2 + 5, 1 << 40, u64::MAX - 4];
    let last = [u64::MAX, u64::MAX - 1, u64::MAX - 2, u64::MAX - 3];
    let mut last_window = false;
    let with_last = rng.chance(1, 6);
    for _ in 0..rng.range(1, 4) {
        let s = if with_last && rng.chance(1, 2) { *rng.pick(&last) } else { *rng.pick(&safe) };
        let i = match rng.below(5) {
            0 => VIn::FirstShred(s),
            1 => VIn::InvalidBlock(s),
            2 => VIn::Block(s, 5, (s - 1, 4)),
            3 => VIn::Timeout(s),
            _ => VIn::TimeoutCrashed(s),
        };
        if s >= u64::MAX - 3 && !matches!(i, VIn::FirstShred(_) | VIn::Block(..)) { last_window = true; }
        let pos = rng.below(ins.len() as u64 + 1) as usize;
        ins.insert(pos, i);
    }
    (ins, last_window)
}

// =====================================================================================================
// stream 4b: the block producer's slice builder and parent handover through the cfg hooks
// =====================================================================================================
/// hands out the scripted payloads, then pends (the builder's time-out ends the slice)
struct TxSource { txs: Mutex<std::collections::VecDeque<Vec<u8>>>, taken: std::sync::atomic::AtomicU64 }
impl Network for TxSource {
    type Send = Transaction;
    type Recv = Transaction;
    async fn send(&self, _m: &Transaction, _a: SocketAddr) -> std::io::Result<()> { Ok(()) }
    async fn send_to_many(&self, _m: &Transaction, _a: impl IntoIterator<Item = SocketAddr> + Send) -> std::io::Result<()> { Ok(()) }
    async fn receive(&self) -> std::io::Result<Transaction> {
        let next = self.txs.lock().unwrap().pop_front();
        match next {
            Some(p) => { self.taken.fetch_add(1, std::sync::atomic::Ordering::SeqCst); Ok(Transaction(p)) }
            None => std::future::pending().await,
        }
    }
}

/// (parent, data) of a slice payload, from its wincode bytes
fn parse_payload(b: &[u8]) -> Option<(Option<(u64, BlockHash)>, Vec<u8>)> {
    let mut p = 0usize;
    let parent = match *b.get(0)? {
        0 => { p += 1; None }
        1 => { let slot = u64::from_le_bytes(b.get(1..9)?.try_into().ok()?); let h: Hash = wincode::deserialize(b.get(9..41)?).ok()?; p += 41; Some((slot, h.into())) }
        _ => return None,
    };
    let dl = u64::from_le_bytes(b.get(p..p + 8)?.try_into().ok()?) as usize;
    p += 8;
    let data = b.get(p..p + dl)?.to_vec();
    if p + dl != b.len() { return None; }
    Some((parent, data))
}

fn tx_streams(rng: &mut Rng, has_parent: bool) -> (Vec<u64>, &'static str) {
    let space: u64 = alpenglow::shredder::MAX_DATA_PER_SLICE as u64 - if has_parent { 41 } else { 1 } - 8;
    let maxtx = alpenglow::MAX_TRANSACTION_SIZE as u64;
    let mtu_p = alpenglow::network::MTU_BYTES as u64 - 8;
    let around = [0u64, 1, 100, maxtx - 1, maxtx, maxtx + 1, 600, 1100, mtu_p - 1, mtu_p, mtu_p + 1, 2000, 5000];
    match rng.below(7) {
        0 => ((0..rng.range(0, 90)).map(|_| *rng.pick(&around)).collect(), "mixed-lengths"),
        1 => ((0..rng.range(1, 70)).map(|_| rng.range(0, maxtx)).collect(), "within-limit"),
        2 => (vec![mtu_p; rng.range(1, 40) as usize], "flood-of-maximal-datagrams"),
        3 => { let mut v = vec![maxtx; 61]; v.push(*rng.pick(&[1100u64, mtu_p, maxtx + 1, 0, maxtx])); v.extend((0..rng.range(0, 4)).map(|_| *rng.pick(&around))); (v, "pinned-witness-shape") }
        4 => {
            // fill with maximal in-limit transactions, then one transaction that leaves exactly / just more / just
            // less than MAX_TRANSACTION_SIZE + 8 bytes, then more traffic
            let mut v = Vec::new(); let mut len = 8u64;
            while space - len >= 2 * (maxtx + 8) + 40 { v.push(maxtx); len += maxtx + 8; if rng.chance(1, 9) { v.push(*rng.pick(&[maxtx + 1, 1100, mtu_p])); } }
            let target_left = maxtx + 8 + rng.range(0, 2) - 1;      // 519, 520, 521
            let room = space - len;                                   // >= 520 here
            if room >= target_left + 8 && room - target_left - 8 <= maxtx { v.push(room - target_left - 8); }
            v.extend((0..rng.range(1, 5)).map(|_| *rng.pick(&around)));
            (v, "slice-boundary")
        }
        5 => { let mut v: Vec<u64> = (0..rng.range(60, 70)).map(|_| if rng.chance(1, 3) { *rng.pick(&[maxtx + 1, 1100, mtu_p]) } else { maxtx }).collect(); v.push(0); (v, "interleaved-oversize") }
        _ => (vec![], "no-transactions"),
    }
}

/// one slice built by the real code from the scripted source; (case text, model-free summary)
fn prod_case(rng: &mut Rng, id: u64) -> (String, &'static str, bool, u64) {
    let has_parent = rng.chance(1, 2);
    let (lens, kind) = tx_streams(rng, has_parent);
    let src = TxSource { txs: Mutex::new(lens.iter().enumerate().map(|(i, l)| vec![(i % 251) as u8; *l as usize]).collect()), taken: Default::default() };
    let parent: Option<BlockId> = if has_parent { Some((Slot::new(7), hash_of(3))) } else { None };
    // paused clock: once the source pends, the builder's sleep is the only timer and fires at once
    let rt = tokio::runtime::Builder::new_current_thread().enable_all().start_paused(true).build().expect("rt");
    let res = catch_unwind(AssertUnwindSafe(|| rt.block_on(alpenglow::consensus::block_producer::verif_produce_slice_payload(&src, parent, Duration::from_secs(3600)))));
    let consumed = src.taken.load(std::sync::atomic::Ordering::SeqCst);
    let l = |v: &[u64]| cf::list(&v.iter().map(|x| cf::n(*x)).collect::<Vec<_>>());
    match res {
        Err(_) => (format!("(C10Prod {} {} {} false 0%N 0%N {} [] true)", cf::n(id), cf::b(has_parent), l(&lens), cf::n(consumed)), kind, true, 0),
        Ok((payload, left)) => {
            let bytes: Vec<u8> = payload.into();
            let (par, data) = parse_payload(&bytes).expect("slice payload layout");
            assert_eq!(par.is_some(), has_parent);
            let count = u64::from_le_bytes(data[0..8].try_into().unwrap());
            let mut got = Vec::new();
            let mut p = 8usize;
            while p + 8 <= data.len() { let tl = u64::from_le_bytes(data[p..p + 8].try_into().unwrap()); got.push(tl); p += 8 + tl as usize; }
            // a buffer that does not parse back into transactions is reported through an impossible length list
            if p != data.len() { got.push(u64::MAX); }
            let full = !left.is_zero();
            (format!("(C10Prod {} {} {} {} {} {} {} {} false)", cf::n(id), cf::b(has_parent), l(&lens), cf::b(full), cf::n(data.len() as u64), cf::n(count), cf::n(consumed), l(&got)), kind, false, count)
        }
    }
}

fn apr_case(rng: &mut Rng, id: u64) -> (String, &'static str, bool) {
    let os = rng.range(1, 40);
    let oh = rng.range(1, 9);
    let (rs, rh, kind) = match rng.below(5) {
        0 => (os, oh, "same-block"),
        1 => (os, oh + 1 + rng.below(3), "other-block-same-slot"),
        2 => (rng.range(0, os.saturating_sub(1)), oh + 1 + rng.below(3), "other-block-earlier-slot"),
        3 => (os + 1 + rng.below(3), oh + 1, "other-block-later-slot"),
        _ => (os.saturating_sub(1), oh, "same-hash-other-slot"),
    };
    let none: Option<BlockId> = None;
    let bytes = wincode::serialize(&(none, vec![0u8; 8])).unwrap();
    let mut payload = alpenglow::types::SlicePayload::try_from(bytes.as_slice()).expect("payload");
    let opt: BlockId = (Slot::new(os), hash_of(oh));
    let recv: BlockId = (Slot::new(rs), hash_of(rh));
    let r = { let pl = &mut payload; catch_unwind(AssertUnwindSafe(|| alpenglow::consensus::block_producer::verif_apply_parent_ready(pl, recv, &opt))) };
    let imp = match r {
        Err(_) => "None".to_string(),
        Ok(()) => {
            let b: Vec<u8> = payload.into();
            match parse_payload(&b).expect("payload layout").0 { None => "(Some None)".to_string(), Some((s, h)) => format!("(Some (Some {}))", pool::r_bid((s, pool::id_of(&h)))) }
        }
    };
    (format!("(C10Apr {} {} {} {})", cf::n(id), pool::r_bid((os, oh)), pool::r_bid((rs, rh)), imp), kind, imp == "None")
}

// =====================================================================================================
// stream 5: real clusters
// =====================================================================================================
/// raw datagram (written as is)
#[derive(Clone)]
struct Raw(Vec<u8>);
unsafe impl<C: wincode::config::ConfigCore> wincode::SchemaWrite<C> for Raw {
    type Src = Raw;
    fn size_of(src: &Raw) -> wincode::WriteResult<usize> { Ok(src.0.len()) }
    fn write(mut writer: impl wincode::io::Writer, src: &Raw) -> wincode::WriteResult<()> { Ok(writer.write(&src.0)?) }
}

#[derive(Clone, Copy, PartialEq, Eq, Debug)]
enum Scenario { HostileAll, TxOversizeFlood, LastWindowShreds, EquivocationHandover }
impl Scenario {
    fn name(self) -> &'static str { match self { Scenario::HostileAll => "hostile-traffic-all-interfaces", Scenario::TxOversizeFlood => "transactions-oversize-flood", Scenario::LastWindowShreds => "shreds-last-u64-window", Scenario::EquivocationHandover => "equivocation-before-handover" } }
    fn kind(self) -> u64 { match self { Scenario::HostileAll => 1, Scenario::TxOversizeFlood => 2, Scenario::LastWindowShreds => 3, Scenario::EquivocationHandover => 4 } }
}

struct NodeOut { scenario: Scenario, param: Vec<u64>, panics: Vec<String>, fin_mid: Vec<u64>, fin_end: Vec<u64>, responder_ok: bool, sent: HashMap<&'static str, u64>, note: String }

struct Seen { notar: Vec<(u64, BlockHash, u64, NotarVote)>, fin: Vec<(u64, u64, FinalVote)> }

struct Byz {
    id: u64,
    ed: signature::SecretKey,
    bls: aggsig::SecretKey,
    infos: Vec<ValidatorInfo>,
    a2a: Arc<SimulatedNetwork<ConsensusMessage, ConsensusMessage>>,
    dis: Arc<SimulatedNetwork<Shred, Shred>>,
    rq: Arc<SimulatedNetwork<RepairResponse, RepairRequest>>,   // answers towards the nodes' requesters
    rp: Arc<SimulatedNetwork<RepairRequest, RepairResponse>>,   // requests towards the nodes' responders
    tx: Arc<SimulatedNetwork<Transaction, Transaction>>,
    raw: Vec<Arc<SimulatedNetwork<Raw, ConsensusMessage>>>,     // outsider endpoints (one per core), raw datagrams
    real: Vec<u64>,
    sent: Mutex<HashMap<&'static str, u64>>,
}
impl Byz {
    fn addr(i: u64) -> SocketAddr { localhost_ip_sockaddr(i as u16) }
    fn count(&self, k: &'static str) { *self.sent.lock().unwrap().entry(k).or_default() += 1; }
    async fn cons(&self, m: ConsensusMessage, k: &'static str) { for r in &self.real { let _ = self.a2a.send(&m, Self::addr(*r)).await; } self.count(k); }
    async fn shred_to(&self, s: &Shred, to: &[u64], k: &'static str) { for r in to { let _ = self.dis.send(s, Self::addr(*r)).await; } self.count(k); }
    async fn shred(&self, s: &Shred, k: &'static str) { let to = self.real.clone(); self.shred_to(s, &to, k).await; }
    async fn req(&self, r: RepairRequest, k: &'static str) { for x in &self.real { let _ = self.rp.send(&r, Self::addr(*x)).await; } self.count(k); }
    async fn resp(&self, r: RepairResponse, k: &'static str) { for x in &self.real { let _ = self.rq.send(&r, Self::addr(*x)).await; } self.count(k); }
    async fn txn(&self, t: Transaction, k: &'static str) { for x in &self.real { let _ = self.tx.send(&t, Self::addr(*x)).await; } self.count(k); }
    async fn garbage(&self, core: usize, b: Vec<u8>) { for x in &self.real { let _ = self.raw[core].send(&Raw(b.clone()), Self::addr(*x)).await; } self.count("raw-datagram"); }
    fn vote(&self, slot: u64, kind: VK, hash: &BlockHash, signer: u64) -> Vote {
        let (s, v) = (Slot::new(slot), vi(signer));
        match kind {
            VK::Notar => Vote::new_notar(s, hash.clone(), &self.bls, v),
            VK::NotarFb => Vote::new_notar_fallback(s, hash.clone(), &self.bls, v),
            VK::Skip => Vote::new_skip(s, &self.bls, v),
            VK::SkipFb => Vote::new_skip_fallback(s, &self.bls, v),
            VK::Final => Vote::new_final(s, &self.bls, v),
        }
    }
}

/// an honest-looking single-slice block signed by `sk`
fn simple_block(slot: u64, parent: BlockId, sk: &signature::SecretKey, salt: u64) -> (Vec<Shred>, BlockHash) {
    let txs: Vec<Vec<u8>> = vec![salt.to_le_bytes().to_vec(), vec![7u8; 20]];
    let slice = Slice { slot: Slot::new(slot), slice_index: slice_index(0), is_last: true, parent: Some(parent), data: wincode::serialize(&txs).unwrap() };
    let shreds = RegularShredder::default().shred(&slice, sk).expect("small slice");
    let root = shreds[0].slice_root().clone();
    let hash = DoubleMerkleTree::new([root].iter()).get_root();
    (shreds.iter().map(|s| s.as_shred().clone()).collect(), hash)
}

async fn finalized(pools: &[SharedPool]) -> Vec<u64> {
    let mut f = Vec::new();
    for p in pools { f.push(p.read().await.finalized_slot().inner()); }
    f
}

fn run_node_scenario(sc: Scenario, seed: u64) -> NodeOut {
    let rt = tokio::runtime::Builder::new_multi_thread().worker_threads(3).thread_name(format!("c10node{}", sc.kind())).enable_all().build().expect("rt");
    let out = rt.block_on(async move {
        let mut rng = Rng::new(seed ^ 0xC10_0000 ^ sc.kind());
        // validators: one whale, one small real node, one Byzantine validator below 20% (played by the harness).
        // LastWindowShreds needs the Byzantine validator to lead the last u64 window: (2^62 - 1) % 3 = 0.
        let (byz_id, stakes): (u64, [u64; 3]) = match sc { Scenario::LastWindowShreds => (0, [1, 4, 1]), _ => (2, [1, 4, 1]) };
        let real: Vec<u64> = (0..3u64).filter(|i| *i != byz_id).collect();
        let mut krng = rand::rng();
        let ed: Vec<signature::SecretKey> = (0..3).map(|_| signature::SecretKey::new(&mut krng)).collect();
        let bls: Vec<aggsig::SecretKey> = (0..3).map(|_| aggsig::SecretKey::new(&mut krng)).collect();
        let infos: Vec<ValidatorInfo> = (0..3u64).map(|i| ValidatorInfo {
            id: vi(i), stake: Stake::new(stakes[i as usize]), pubkey: ed[i as usize].to_pk(), voting_pubkey: bls[i as usize].to_pk(),
            all2all_address: Byz::addr(i), disseminator_address: Byz::addr(i), repair_requester_address: Byz::addr(i), repair_responder_address: Byz::addr(i),
        }).collect();
        let mk = || Arc::new(SimulatedNetworkCore::new(1, 0.0, 0.0));
        let cores = [mk(), mk(), mk(), mk(), mk()];   // all2all, disseminator, repair requests->responders' answers (rq), repair responders (rp), transactions
        let epoch = EpochInfo::new(infos.clone());
        let mut pools: Vec<SharedPool> = Vec::new();
        let mut cancels = Vec::new();
        for &i in &real {
            let ei = Arc::new(ValidatorEpochInfo::new(vi(i), epoch.clone()));
            let n_a2a: SimulatedNetwork<ConsensusMessage, ConsensusMessage> = cores[0].join_unlimited(vi(i)).await;
            let n_dis: SimulatedNetwork<Shred, Shred> = cores[1].join_unlimited(vi(i)).await;
            let n_rq: SimulatedNetwork<RepairRequest, RepairResponse> = cores[2].join_unlimited(vi(i)).await;
            let n_rp: SimulatedNetwork<RepairResponse, RepairRequest> = cores[3].join_unlimited(vi(i)).await;
            let n_tx: SimulatedNetwork<Transaction, Transaction> = cores[4].join_unlimited(vi(i)).await;
            let node = Alpenglow::new(ed[i as usize].clone(), bls[i as usize].clone(), TrivialAll2All::new(infos.clone(), n_a2a), Rotor::new(n_dis, ei.clone()), n_rq, n_rp, ei, n_tx);
            pools.push(node.get_pool());
            cancels.push(node.get_cancel_token());
            tokio::spawn(node.run());
        }
        let mut raw = Vec::new();
        for c in &cores { raw.push(Arc::new(c.join_unlimited::<Raw, ConsensusMessage>(vi(900)).await)); }
        let byz = Arc::new(Byz {
            id: byz_id, ed: ed[byz_id as usize].clone(), bls: bls[byz_id as usize].clone(), infos: infos.clone(),
            a2a: Arc::new(cores[0].join_unlimited(vi(byz_id)).await), dis: Arc::new(cores[1].join_unlimited(vi(byz_id)).await),
            rq: Arc::new(cores[2].join_unlimited(vi(byz_id)).await), rp: Arc::new(cores[3].join_unlimited(vi(byz_id)).await),
            tx: Arc::new(cores[4].join_unlimited(vi(byz_id)).await), raw, real: real.clone(), sent: Mutex::new(HashMap::new()),
        });
        // drain the Byzantine validator's inboxes; remember the honest nodes' notar / final votes
        let seen = Arc::new(Mutex::new(Seen { notar: Vec::new(), fin: Vec::new() }));
        { let (b, s) = (byz.clone(), seen.clone()); tokio::spawn(async move { loop { match b.a2a.receive().await {
            Ok(ConsensusMessage::Vote(vote)) => { let signer = vote.signer().inner(); match vote {
                Vote::Notar(v) => { let e = (v.slot().inner(), v.block_hash().clone(), signer, v.clone()); s.lock().unwrap().notar.push(e); }
                Vote::Final(v) => { let e = (v.slot().inner(), signer, v.clone()); s.lock().unwrap().fin.push(e); }
                _ => {} } }
            Ok(_) => {} Err(_) => break } } }); }
        { let b = byz.clone(); tokio::spawn(async move { while b.dis.receive().await.is_ok() {} }); }
        { let b = byz.clone(); tokio::spawn(async move { while b.rq.receive().await.is_ok() {} }); }
        { let b = byz.clone(); tokio::spawn(async move { while b.tx.receive().await.is_ok() {} }); }
        let responses = Arc::new(Mutex::new(Vec::<RepairResponse>::new()));
        { let (b, r) = (byz.clone(), responses.clone()); tokio::spawn(async move { while let Ok(m) = b.rp.receive().await { r.lock().unwrap().push(m); } }); }

        let t0 = Instant::now();
        tokio::time::sleep(Duration::from_millis(1200)).await;
        let mut param: Vec<u64> = Vec::new();
        let mut note = String::new();
        match sc {
            Scenario::HostileAll => hostile_all(&byz, &seen, &pools, &mut rng).await,
            Scenario::TxOversizeFlood => {
                // maximal datagrams: payload MTU - 8; every slice that receives 22 of them overflows its buffer
                let p = alpenglow::network::MTU_BYTES as u64 - 8;
                param = vec![p, 22];
                for _ in 0..120 {
                    for _ in 0..30 { byz.txn(Transaction(vec![0xEE; p as usize]), "tx-oversize").await; }
                    tokio::time::sleep(Duration::from_millis(25)).await;
                    if t0.elapsed() > Duration::from_millis(4200) { break; }
                }
            }
            Scenario::LastWindowShreds => {
                // two validly signed shreds: the first stored (FirstShred), the second contradicting the last-slice marker
                let s = u64::MAX - rng.below(4);
                param = vec![s];
                let shards: Vec<Vec<u8>> = (0..64u8).map(|i| vec![i; 64]).collect();
                let a = custom_shreds(&byz.ed, s, 1, true, &shards, &|i| i < 32);
                let b = custom_shreds(&byz.ed, s, 2, false, &shards, &|i| i < 32);
                byz.shred(&a[0], "shred-last-window").await;
                tokio::time::sleep(Duration::from_millis(50)).await;
                byz.shred(&b[0], "shred-last-window").await;
                tokio::time::sleep(Duration::from_millis(100)).await;
                // ... and complete, well-formed blocks in that window (blockstore -> pool.add_block -> Votor with the
                // largest slots there are)
                for d in 1..4u64 {
                    let slot = u64::MAX - (s % 4 + d) % 4;
                    if slot == s { continue; }
                    let (shreds, _h) = simple_block(slot, (Slot::new(slot - 1), any_hash(d)), &byz.ed, d);
                    for x in &shreds { byz.shred(x, "shred-last-window-block").await; }
                }
                tokio::time::sleep(Duration::from_millis(300)).await;
            }
            Scenario::EquivocationHandover => { let (p, n) = equivocation_handover(&byz, &seen).await; param = p; note = n; }
        }
        // end of the hostile phase
        tokio::time::sleep(Duration::from_millis(300)).await;
        let fin_mid = finalized(&pools).await;
        // the node must keep finalizing: wait for progress on every node (bounded)
        // (progress ends the wait; the bound is generous so that a loaded machine is not mistaken for a wedged node)
        let deadline = Instant::now() + Duration::from_millis(60_000);
        let mut fin_end = fin_mid.clone();
        while Instant::now() < deadline {
            tokio::time::sleep(Duration::from_millis(250)).await;
            fin_end = finalized(&pools).await;
            if fin_end.iter().zip(&fin_mid).all(|(a, b)| a > b) { break; }
        }
        // ... and keep answering repair requests: ask every node for the last slice root of a block it notarized
        let target = { let s = seen.lock().unwrap(); s.notar.iter().rev().find(|e| e.0 <= fin_end.iter().copied().min().unwrap_or(0) && e.0 > 0).map(|e| (e.0, e.1.clone())) };
        let mut responder_ok = false;
        if let Some((slot, hash)) = target {
            responses.lock().unwrap().clear();
            let bid: BlockId = (Slot::new(slot), hash.clone());
            // an answer ends the wait; the request is repeated every 2 s for up to a minute (loaded machines)
            'probe: for _ in 0..30 {
                // every node answers a request once: answers are counted per round
                responses.lock().unwrap().clear();
                byz.req(RepairRequest::verif_new(vi(byz.id), RepairRequestType::LastSliceRoot(bid.clone())), "probe-request").await;
                for _ in 0..40 {
                    tokio::time::sleep(Duration::from_millis(50)).await;
                    let got = responses.lock().unwrap().iter().filter(|r| matches!(r, RepairResponse::LastSliceRoot(RepairRequestType::LastSliceRoot(b), _, _, _) if *b == bid)).count();
                    if got >= real.len() { responder_ok = true; break 'probe; }
                }
            }
        } else { note.push_str(" no-notarized-block-observed"); }
        for c in &cancels { c.cancel(); }
        let sent = byz.sent.lock().unwrap().clone();
        NodeOut { scenario: sc, param, panics: Vec::new(), fin_mid, fin_end, responder_ok, sent, note }
    });
    rt.shutdown_timeout(Duration::from_millis(300));
    out
}

/// every interface, everything hostile that must be survivable
async fn hostile_all(byz: &Arc<Byz>, seen: &Arc<Mutex<Seen>>, pools: &[SharedPool], rng: &mut Rng) {
    let me = byz.id;
    let n = byz.infos.len() as u64;
    for round in 0..6u64 {
        let cur = finalized(pools).await.into_iter().max().unwrap_or(0);
        // ---- consensus interface ----
        let far = [cur + EPOCH2 - 1, cur + EPOCH2, cur + EPOCH2 + 1, 1 << 32, 1 << 63, u64::MAX - 4, u64::MAX];
        for &s in &far {
            for k in [VK::Notar, VK::NotarFb, VK::Skip, VK::SkipFb, VK::Final] { byz.cons(byz.vote(s, k, &any_hash(s), me).into(), "vote-far-future").await; }
        }
        for s in [0u64, 1, cur.saturating_sub(1), cur] {
            for k in [VK::Notar, VK::Skip, VK::Final, VK::SkipFb] { byz.cons(byz.vote(s, k, &any_hash(1), me).into(), "vote-old-or-pruned").await; }
        }
        // equivocation in live slots
        for s in cur + 1..cur + 4 {
            for (k, h) in [(VK::Notar, 1u64), (VK::Notar, 2), (VK::Skip, 0), (VK::Final, 0), (VK::NotarFb, 3), (VK::SkipFb, 0)] { byz.cons(byz.vote(s, k, &any_hash(h), me).into(), "vote-equivocation").await; }
        }
        // unknown / impersonated signers
        for signer in [n, n + 1, 1 << 31, 1 << 63, u64::MAX] { byz.cons(byz.vote(cur + 1, VK::Notar, &any_hash(1), signer).into(), "vote-unknown-signer").await; }
        for signer in byz.real.clone() { byz.cons(byz.vote(cur + 1, VK::Skip, &any_hash(1), signer).into(), "vote-impersonation").await; }
        // certificates: insufficient stake, wrong bitmask length, forged halves, far future
        for s in [cur + 1, cur + EPOCH2 + 3, u64::MAX] {
            let nv = NotarVote::new(Slot::new(s), any_hash(4), &byz.bls, vi(me));
            if let Ok(c) = NotarCert::try_new(&[nv.clone()], &byz.infos) { byz.cons(Cert::Notar(c).into(), "cert-insufficient-stake").await; }
            if let Ok(c) = FastFinalCert::try_new(&[nv.clone()], &byz.infos) { byz.cons(Cert::FastFinal(c).into(), "cert-insufficient-stake").await; }
            let mut longer = byz.infos.clone(); let mut extra = longer[0].clone(); extra.id = vi(n); longer.push(extra);
            if let Ok(c) = NotarCert::try_new(&[nv.clone()], &longer) { byz.cons(Cert::Notar(c).into(), "cert-bitmask-length").await; }
            let forged: Vec<NotarVote> = (0..n).map(|i| NotarVote::new(Slot::new(s), any_hash(4), &byz.bls, vi(i))).collect();
            if let Ok(c) = NotarCert::try_new(&forged, &byz.infos) { byz.cons(Cert::Notar(c).into(), "cert-forged-signers").await; }
            let sv: Vec<SkipVote> = (0..n).map(|i| SkipVote::new(Slot::new(s), &byz.bls, vi(i))).collect();
            if let Ok(c) = SkipCert::try_new(&sv, &[], &byz.infos) { byz.cons(Cert::Skip(c).into(), "cert-forged-signers").await; }
            let fv: Vec<FinalVote> = (0..n).map(|i| FinalVote::new(Slot::new(s), &byz.bls, vi(i))).collect();
            if let Ok(c) = FinalCert::try_new(&fv, &byz.infos) { byz.cons(Cert::Final(c).into(), "cert-forged-signers").await; }
        }
        // valid certificates assembled from the honest nodes' own votes, replayed (duplicates, other class, pruned slots)
        let (notar, fin): (Vec<_>, Vec<_>) = { let s = seen.lock().unwrap(); (s.notar.clone(), s.fin.clone()) };
        let mut by_block: HashMap<(u64, Vec<u8>), Vec<(u64, NotarVote)>> = HashMap::new();
        for (s, h, signer, v) in &notar { by_block.entry((*s, h.as_hash().as_ref().to_vec())).or_default().push((*signer, v.clone())); }
        for ((_s, _h), vs) in by_block.iter().take(40) {
            let mut uniq_s: Vec<u64> = Vec::new();
            let mut uniq: Vec<NotarVote> = Vec::new();
            for (sg, v) in vs { if !uniq_s.contains(sg) { uniq_s.push(*sg); uniq.push(v.clone()); } }
            if let Ok(c) = NotarCert::try_new(&uniq, &byz.infos) { byz.cons(Cert::Notar(c).into(), "cert-valid-replayed").await; }
            let none: [NotarFallbackVote; 0] = [];
            if let Ok(c) = NotarFallbackCert::try_new(&uniq, &none, &byz.infos) { byz.cons(Cert::NotarFallback(c).into(), "cert-valid-other-class").await; }
            if let Ok(c) = FastFinalCert::try_new(&uniq, &byz.infos) { byz.cons(Cert::FastFinal(c).into(), "cert-valid-replayed").await; }
        }
        let mut by_slot: HashMap<u64, (Vec<u64>, Vec<FinalVote>)> = HashMap::new();
        for (s, signer, v) in &fin { let e = by_slot.entry(*s).or_default(); if !e.0.contains(signer) { e.0.push(*signer); e.1.push(v.clone()); } }
        for (_s, (_sg, vs)) in by_slot.iter().take(40) { if let Ok(c) = FinalCert::try_new(vs, &byz.infos) { byz.cons(Cert::Final(c).into(), "cert-valid-replayed").await; } }

        // ---- shred interface ----
        // the Byzantine validator's windows: the coming one and far-future ones (never the last u64 window)
        let w = (cur / SPW + 1..cur / SPW + 8).find(|w| w % n == me).unwrap();
        let far_windows = [w, w + 3 * 1000, (1u64 << 40) / 3 * 3 + me, ((1u64 << 62) / 3 - 5) * 3 + me];
        for (wi, fw) in far_windows.iter().enumerate() {
            let slot = fw * SPW + rng.below(SPW);
            if slot >= u64::MAX - 7 { continue; }
            // Byzantine-signed block shapes of C13 (parents in the future, no parent, contradictory last flags, ...)
            let (specs, shape) = loop { let (sp, sh) = c13::block_shape(rng, slot.max(3)); if sh != "honest-tag-flip" && !sh.starts_with("honest") { break (sp, sh); } };
            let _ = shape;
            let built: Vec<BuiltSlice> = specs.iter().map(|sp| c13::build_slice(rng, slot, &byz.ed, sp)).collect();
            for b in &built { for k in 0..(if wi == 0 { 64 } else { 34 }) { byz.shred(b.shreds[k].as_shred(), "shred-byzantine-block").await; } }
        }
        {
            // truncated / odd-sized / oversize / mis-tagged shards, all validly signed
            let slot = w * SPW + 1 + round % 3;
            let variants: Vec<(Vec<Vec<u8>>, bool)> = vec![
                ((0..64u8).map(|i| vec![i; 33]).collect(), false),                     // odd size
                ((0..64u8).map(|_| vec![]).collect(), false),                          // empty
                ((0..64u8).map(|i| vec![i; 1]).collect(), false),                      // one byte
                ((0..64u8).map(|i| vec![i; 1026]).collect(), false),                   // above MAX_DATA_PER_SHRED
                ((0..64u8).map(|i| vec![i; 1190]).collect(), false),                   // largest that fits a datagram
                ((0..64u8).map(|i| vec![i; 64 + (i as usize % 2) * 2]).collect(), false), // unequal sizes
                ((0..64u8).map(|i| vec![i; 64]).collect(), true),                      // data / coding tags swapped
                ((0..64u8).map(|_| vec![0u8; 64]).collect(), false),                   // all-zero payload (no padding marker)
            ];
            for (vix, (shards, swap)) in variants.iter().enumerate() {
                let shreds = custom_shreds(&byz.ed, slot, (round * 8 + vix as u64) % 1024, vix % 2 == 0, shards, &|i| (i < 32) != *swap);
                for s in shreds.iter().take(40) { byz.shred(s, "shred-malformed-signed").await; }
            }
            // slice index at the limit, contradictory last flags
            let shards: Vec<Vec<u8>> = (0..64u8).map(|i| vec![i; 64]).collect();
            for (idx, last) in [(1023u64, true), (1023, false), (0, true), (5, true), (7, false), (3, true)] {
                let shreds = custom_shreds(&byz.ed, slot + 1, idx, last, &shards, &|i| i < 32);
                for s in shreds.iter().take(3) { byz.shred(s, "shred-contradictory-last-flags").await; }
            }
            // a slot led by an honest node, signed by the Byzantine key
            let honest_slot = (cur / SPW + 1..cur / SPW + 8).find(|w| w % n != me).unwrap() * SPW;
            for s in custom_shreds(&byz.ed, honest_slot, 0, true, &shards, &|i| i < 32).iter().take(3) { byz.shred(s, "shred-wrong-leader").await; }
        }
        // ---- repair interfaces ----
        let known: Option<BlockId> = notar.last().map(|e| (Slot::new(e.0), e.1.clone()));
        let unknown: BlockId = (Slot::new(cur + 1), any_hash(77));
        for sender in [me, n, n + 5, 1 << 63, u64::MAX] {
            for bid in known.iter().chain(std::iter::once(&unknown)) {
                for t in [RepairRequestType::LastSliceRoot(bid.clone()), RepairRequestType::SliceRoot(bid.clone(), slice_index(0)), RepairRequestType::SliceRoot(bid.clone(), slice_index(1023)),
                          RepairRequestType::Shred(bid.clone(), slice_index(0), shred_index(63)), RepairRequestType::Shred(bid.clone(), slice_index(1023), shred_index(0)), RepairRequestType::Shred(bid.clone(), slice_index(1), shred_index(5))] {
                    byz.req(RepairRequest::verif_new(vi(sender), t), if sender == me { "repair-request-out-of-range" } else { "repair-request-unknown-sender" }).await;
                }
            }
        }
        // unsolicited / mismatched responses (the proofs are taken from the nodes' own answers when available)
        let shards: Vec<Vec<u8>> = (0..64u8).map(|i| vec![i; 64]).collect();
        let some_shred = custom_shreds(&byz.ed, cur + 1, 0, true, &shards, &|i| i < 32).remove(0);
        for bid in known.iter().chain(std::iter::once(&unknown)) {
            byz.resp(RepairResponse::Nack(RepairRequestType::LastSliceRoot(bid.clone())), "repair-response-unsolicited").await;
            byz.resp(RepairResponse::Nack(RepairRequestType::Shred(bid.clone(), slice_index(1023), shred_index(63))), "repair-response-unsolicited").await;
            byz.resp(RepairResponse::Shred(RepairRequestType::Shred(bid.clone(), slice_index(0), shred_index(0)), some_shred.clone()), "repair-response-unsolicited").await;
            byz.resp(RepairResponse::Shred(RepairRequestType::LastSliceRoot(bid.clone()), some_shred.clone()), "repair-response-mismatched").await;
        }
        // ---- transactions: the documented limit and below ----
        for len in [0usize, 1, 100, 511, 512] { for _ in 0..4 { byz.txn(Transaction(rng.bytes(len)), "tx-within-limit").await; } }
        // ---- raw datagrams on every interface ----
        for core in 0..5 {
            for len in [0usize, 1, 3, 4, 12, 100, 1499, 1500] { let b = rng.bytes(len); byz.garbage(core, b).await; }
            let mut v = wincode::serialize(&ConsensusMessage::from(byz.vote(cur + 1, VK::Notar, &any_hash(1), me))).unwrap();
            v.truncate(v.len() - 1); byz.garbage(core, v.clone()).await; v.extend_from_slice(&[0, 0, 0]); byz.garbage(core, v).await;
        }
        tokio::time::sleep(Duration::from_millis(350)).await;
    }
}

/// The Byzantine leader of a window produces valid blocks, but two different ones in the window's last slot: one
/// shown only to the next leader, the other to everybody else (who certify it).
async fn equivocation_handover(byz: &Arc<Byz>, seen: &Arc<Mutex<Seen>>) -> (Vec<u64>, String) {
    let me = byz.id;
    let n = byz.infos.len() as u64;
    // the first window of the Byzantine validator that is followed by a real node's window: w = me (mod n)
    let w = me;
    let first = w * SPW;
    let next_leader = (w + 1) % n;
    let others: Vec<u64> = byz.real.iter().copied().filter(|r| *r != next_leader).collect();
    // wait for the parent: the block of slot first-1 as the whale notarized it
    let deadline = Instant::now() + Duration::from_millis(8000);
    let parent: BlockId = loop {
        let p = { let s = seen.lock().unwrap(); s.notar.iter().find(|e| e.0 == first - 1 && e.2 == 1).map(|e| (Slot::new(e.0), e.1.clone())) };
        if let Some(p) = p { break p; }
        if Instant::now() > deadline { return (vec![], "parent-block-never-observed".into()); }
        tokio::time::sleep(Duration::from_millis(5)).await;
    };
    tokio::time::sleep(Duration::from_millis(30)).await;
    let mut parent = parent;
    for slot in first..first + SPW - 1 {
        let (shreds, hash) = simple_block(slot, parent.clone(), &byz.ed, slot);
        for s in &shreds { byz.shred(s, "shred-valid-block").await; }
        byz.cons(byz.vote(slot, VK::Notar, &hash, me).into(), "vote-own-block").await;
        parent = (Slot::new(slot), hash);
        tokio::time::sleep(Duration::from_millis(120)).await;
    }
    let last = first + SPW - 1;
    let (shreds_a, hash_a) = simple_block(last, parent.clone(), &byz.ed, 0xA);
    let (shreds_b, hash_b) = simple_block(last, parent.clone(), &byz.ed, 0xB);
    // A to the next leader only, B to everybody else (they certify it).  The first shred of each version pins the
    // commitment at its recipients, so that shreds of the other version relayed by Rotor are dropped there.
    byz.shred_to(&shreds_a[0], &[next_leader], "shred-equivocating-block").await;
    byz.shred_to(&shreds_b[0], &others, "shred-equivocating-block").await;
    tokio::time::sleep(Duration::from_millis(8)).await;
    for s in &shreds_a[1..] { byz.shred_to(s, &[next_leader], "shred-equivocating-block").await; }
    // the next leader now holds block A of the previous slot and starts producing on it optimistically;
    // only then do the others obtain B and certify it
    tokio::time::sleep(Duration::from_millis(60)).await;
    for s in &shreds_b[1..] { byz.shred_to(s, &others, "shred-equivocating-block").await; }
    byz.cons(byz.vote(last, VK::Notar, &hash_b, me).into(), "vote-own-block").await;
    tokio::time::sleep(Duration::from_millis(1500)).await;
    let ida = crate::pool::id_of(&hash_a) | 1;
    let idb = (crate::pool::id_of(&hash_b) | 1) ^ if crate::pool::id_of(&hash_a) | 1 == crate::pool::id_of(&hash_b) | 1 { 2 } else { 0 };
    (vec![last, ida, last, idb], format!("next-leader={}", next_leader))
}

// =====================================================================================================
// probes of conditions that are not reachable from the network in this tree (reported, not judged)
// =====================================================================================================
fn probe_execution_channel() -> String {
    use alpenglow::execution::{DummyExecution, ExecutionEngine, InProgressBlock};
    let (tx, _rx) = mpsc::channel(1);
    let r = catch_unwind(AssertUnwindSafe(|| {
        let mut e = DummyExecution::new(tx);
        for s in 1..=2u64 {
            e.begin_block(InProgressBlock::Pending(Slot::new(s)), None);
            e.end_block((Slot::new(s), any_hash(s)));
        }
    }));
    if r.is_err() { "DummyExecution::end_block panics once the bounded event channel is full (capacity 1, two blocks, receiver idle); the engine is not wired to any network path in this tree".into() } else { "no panic".into() }
}

fn probe_pick_random_peer() -> String {
    // only the node itself holds stake: Repair::pick_random_peer can never sample another validator
    let (done_tx, done_rx) = std::sync::mpsc::channel::<()>();
    std::thread::spawn(move || {
        let rt = tokio::runtime::Builder::new_current_thread().enable_all().build().expect("rt");
        let keys = pool::Keys::new(3);
        let epoch = keys.epoch(&[5, 0, 0], 0);
        let (btx, _brx) = mpsc::channel(64);
        let (ptx, _prx) = mpsc::channel(64);
        let (rtx, _rrx) = mpsc::channel(64);
        let bs: alpenglow::consensus::SharedBlockstore = Arc::new(tokio::sync::RwLock::new(BlockstoreImpl::new(btx)));
        let pl: SharedPool = Arc::new(tokio::sync::RwLock::new(PoolImpl::new(epoch.clone(), ptx, rtx)));
        let net = c14::Net::<RepairRequest, RepairResponse>(Arc::new(c14::RecNet::default()));
        let mut rep = alpenglow::repair::Repair::new(bs, pl, net, epoch);
        rt.block_on(rep.repair_block((Slot::new(3), any_hash(3))));
        let _ = done_tx.send(());
    });
    match done_rx.recv_timeout(Duration::from_millis(1500)) {
        Ok(()) => "terminated".into(),
        Err(_) => "Repair::repair_block does not return within 1.5 s when no OTHER validator has positive stake (pick_random_peer loops); such a node can never be asked to repair by the network (every certificate needs its own vote), so this is a configuration hazard".into(),
    }
}

// =====================================================================================================
pub fn gen_c10(seed: u64, tier: Tier) -> CaseSet {
    install_hook();
    let mut rng = Rng::new(seed ^ 0xC10);
    let (n_pipe, n_rep, n_pool, n_votor, n_prod) = match tier { Tier::Quick => (40, 24, 50, 120, 150), Tier::Thorough => (1200, 600, 1500, 4000, 6000) };
    let (mut cases, mut descr, mut sigs): (Vec<String>, Vec<String>, Vec<(u64, u64, String)>) = (Vec::new(), Vec::new(), Vec::new());
    let mut stats = Stats::default();
    let mut seen = HashSet::new();
    let mut dist: HashMap<String, u64> = HashMap::new();
    let mut cid = 0u64;

    // ---- node scenarios run concurrently with the component streams ----
    let scenarios = [Scenario::HostileAll, Scenario::TxOversizeFlood, Scenario::LastWindowShreds, Scenario::EquivocationHandover];
    // every cluster runs on its own named runtime threads; the panic hook records the thread name, which is how a
    // panic is attributed to its cluster
    let node_threads: Vec<_> = scenarios.iter().map(|sc| { let sc = *sc; std::thread::Builder::new().name(format!("c10node{}", sc.kind())).spawn(move || run_node_scenario(sc, seed)).expect("spawn") }).collect();
    // ---- stream 1: shred path ----
    let keys = ed_keys(4);
    for _ in 0..n_pipe {
        let o = pipe_case(&mut rng, &keys, cid);
        let bad = o.pool_panics + o.votor_panics + o.bs_panics > 0 || !o.served;
        sigs.push((cid, 0, format!("pipe:{}:{}", o.shapes.join("+"), if o.bs_panics > 0 { "blockstore-panic" } else if o.pool_panics > 0 { "pool-panic" } else if o.votor_panics > 0 { "votor-panic" } else if !o.served { "honest-block-not-served" } else { "ok" })));
        for s in &o.shapes { *dist.entry(format!("pipe-shape:{}", s)).or_default() += 1; }
        *dist.entry("pipe:blocks-announced".into()).or_default() += o.blocks_announced;
        *dist.entry("pipe:invalid-block-announced".into()).or_default() += o.invalid_announced;
        *dist.entry("pipe:shreds-dropped-by-validation".into()).or_default() += o.dropped_by_validation;
        *dist.entry("pipe:votes-cast-by-votor".into()).or_default() += o.votes as u64;
        stats.evaluations += 1;
        if (o.invalid_announced > 0 || bad) && seen.insert(o.txt.clone()) { stats.distinct_nontrivial += 1; }
        if stats.samples.is_empty() && o.invalid_announced > 0 { stats.samples.push(o.txt.chars().take(900).collect()); }
        descr.push(format!("case {}: shred path, blocks {:?}, announced {} invalid {} dropped-by-validation {} panics(bs/pool/votor) {}/{}/{} last honest block served {}", cid, o.shapes, o.blocks_announced, o.invalid_announced, o.dropped_by_validation, o.bs_panics, o.pool_panics, o.votor_panics, o.served));
        cases.push(o.txt);
        cid += 1;
    }
    // ---- stream 2: repair (generators of C14) ----
    {
        let mut keys = pool::Keys::new(4);
        for i in 0..n_rep {
            let (inner, sig, panicked) = if i % 2 == 0 {
                let (txt, kinds, panicked, _done, sk) = c14::requester_case(&mut rng, &mut keys, cid);
                for (k, c) in kinds { *dist.entry(format!("repair-response:{}", k)).or_default() += c; }
                (txt, format!("repair-requester:{}", sk.last().cloned().unwrap_or_default()), panicked)
            } else {
                let (txt, _problems, panicked) = c14::responder_case(&mut rng, &mut keys, cid);
                (txt, format!("repair-responder{}", if panicked { ":panic" } else { "" }), panicked)
            };
            for k in 0..400u64 { sigs.push((cid, k, sig.clone())); }
            stats.evaluations += 1;
            let txt = format!("(C10Rep {})", inner);
            if seen.insert(txt.clone()) { stats.distinct_nontrivial += 1; }
            *dist.entry(format!("repair:{}", if panicked { "panic" } else { "no-panic" })).or_default() += 1;
            descr.push(format!("case {}: repair {} (generator of C14), panicked {}", cid, if i % 2 == 0 { "requester under hostile responses" } else { "responder under requests incl. unknown senders" }, panicked));
            cases.push(txt);
            cid += 1;
        }
    }
    // ---- stream 3: consensus messages ----
    {
        let mut ring = KeyRing::new();
        for _ in 0..n_pool {
            let o = pool_case(&mut rng, &mut ring, cid);
            for (k, kd) in o.kinds.iter().enumerate() { sigs.push((cid, k as u64, format!("pool:{}", kd))); *dist.entry(format!("pool-op:{}", kd)).or_default() += 1; }
            sigs.push((cid, 999991, "pool:votor-panic-on-pool-event".into()));
            stats.evaluations += 1;
            if o.finalized > 0 && seen.insert(o.txt.clone()) { stats.distinct_nontrivial += 1; }
            if stats.samples.len() < 2 && o.finalized > 2 { stats.samples.push(o.txt.chars().take(700).collect()); }
            descr.push(format!("case {}: consensus messages, {} operations of which {} hostile, finalized slot {}, pool panics {}, votor panics {}", cid, o.kinds.len(), o.hostile, o.finalized, o.pool_panics, o.votor_panics));
            cases.push(o.txt);
            cid += 1;
        }
    }
    // ---- stream 4: Votor with extreme slots ----
    {
        let mut ring = KeyRing::new();
        for _ in 0..n_votor {
            let (ins, last_window) = votor_extreme(&mut rng);
            let stakes = vec![1u64; 4];
            let own = rng.below(4);
            let keys = ring.get(4);
            let (txt, nvotes, panicked, kinds) = votor::run_case(keys, cid, &stakes, own, &ins);
            for (k, kd) in kinds.iter().enumerate() {
                let is_last = panicked && k + 1 == kinds.len();
                let slot_class = match &ins[k] { VIn::InvalidBlock(s) | VIn::Timeout(s) | VIn::TimeoutCrashed(s) if *s >= u64::MAX - 3 => "last-u64-window", _ => "other-slot" };
                sigs.push((cid, k as u64, format!("votor:{}:{}{}", kd, slot_class, if is_last { ":panic" } else { "" })));
            }
            *dist.entry(format!("votor:{}", if panicked { "panic" } else { "no-panic" })).or_default() += 1;
            if last_window { *dist.entry("votor:cases-with-last-window-skip-trigger".into()).or_default() += 1; }
            stats.evaluations += 1;
            let t = format!("(C10Votor {})", txt);
            if nvotes >= 2 && seen.insert(t.clone()) { stats.distinct_nontrivial += 1; }
            descr.push(format!("case {}: Votor, {} events incl. extreme slots, {} own votes, panicked {}", cid, ins.len(), nvotes, panicked));
            cases.push(t);
            cid += 1;
        }
    }
    // ---- stream 4b: the real slice builder / parent handover (cfg hooks) ----
    for i in 0..n_prod {
        if i % 5 == 4 {
            let (txt, kind, panicked) = apr_case(&mut rng, cid);
            sigs.push((cid, 0, format!("producer:apply-parent-ready:{}{}", kind, if panicked { ":panic" } else { "" })));
            *dist.entry(format!("handover:{}", kind)).or_default() += 1;
            stats.evaluations += 1;
            if seen.insert(txt.clone()) { stats.distinct_nontrivial += 1; }
            descr.push(format!("case {}: apply_parent_ready (hook), {}, panicked {}", cid, kind, panicked));
            cases.push(txt);
        } else {
            let (txt, kind, panicked, count) = prod_case(&mut rng, cid);
            sigs.push((cid, 0, format!("producer:produce-slice-payload:{}{}", kind, if panicked { ":panic" } else { "" })));
            *dist.entry(format!("producer-stream:{}", kind)).or_default() += 1;
            stats.evaluations += 1;
            if count > 0 && seen.insert(txt.clone()) { stats.distinct_nontrivial += 1; }
            descr.push(format!("case {}: produce_slice_payload (hook) on a scripted transaction source, {}, {} transactions in the slice, panicked {}", cid, kind, count, panicked));
            cases.push(txt);
        }
        cid += 1;
    }
    // ---- stream 5: clusters ----
    let node_outs: Vec<NodeOut> = node_threads.into_iter().map(|t| t.join().expect("cluster scenario")).collect();
    std::thread::sleep(Duration::from_millis(300));
    let all_panics = PANICS.lock().unwrap().clone();
    for mut o in node_outs {
        let tag = format!("[c10node{}]", o.scenario.kind());
        o.panics = all_panics.iter().filter(|p| p.starts_with(&tag)).map(|p| p[tag.len() + 1..].to_string()).collect();
        let panicked = !o.panics.is_empty();
        let progress = o.fin_end.len() == o.fin_mid.len() && o.fin_end.iter().zip(&o.fin_mid).all(|(a, b)| a > b);
        let outcome = if panicked { format!("panic:{}", panic_sig(&o.panics[0])) } else if !progress { "no-progress".to_string() } else if !o.responder_ok { "responder-silent".to_string() } else { "ok".to_string() };
        sigs.push((cid, 0, format!("node:{}:{}", o.scenario.name(), outcome)));
        *dist.entry(format!("node:{}", o.scenario.name())).or_default() += 1;
        let mut sent: Vec<_> = o.sent.iter().collect(); sent.sort();
        stats.evaluations += 1;
        stats.distinct_nontrivial += 1;
        let l = |v: &Vec<u64>| cf::list(&v.iter().map(|x| cf::n(*x)).collect::<Vec<_>>());
        let txt = format!("(C10Node {} {} {} {} {} {} {})", cf::n(cid), cf::n(o.scenario.kind()), l(&o.param), cf::b(panicked), l(&o.fin_mid), l(&o.fin_end), cf::b(o.responder_ok));
        descr.push(format!("case {}: cluster scenario {} (2 real nodes + 1 Byzantine validator + outside attacker), messages sent {:?}, finalized before/after {:?}/{:?}, repair request answered {}, panics {:?} {}", cid, o.scenario.name(), sent, o.fin_mid, o.fin_end, o.responder_ok, o.panics.iter().map(|p| p.replace('\n', " ")).collect::<Vec<_>>(), o.note));
        if stats.samples.len() < 3 { stats.samples.push(format!("{} -- {}", txt, descr.last().unwrap().chars().take(600).collect::<String>())); }
        stats.distribution.push((format!("node-scenario:{}", o.scenario.name()), format!("outcome={} sent={:?}", outcome, sent)));
        cases.push(txt);
        cid += 1;
    }
    stats.distribution.push(("probe:execution-event-channel".into(), probe_execution_channel()));
    stats.distribution.push(("probe:pick_random_peer".into(), probe_pick_random_peer()));
    let mut d: Vec<_> = dist.into_iter().collect(); d.sort();
    stats.distribution.push(("streams".into(), d.iter().map(|(k, c)| format!("{}={}", k, c)).collect::<Vec<_>>().join(", ")));
    stats.rule = "six hostile streams, each interleaved with normal traffic and run against the REAL code under catch_unwind / a process-wide panic hook: (1) shred path - blocks of C13's shapes (honest; Byzantine-signed: no parent, parent switched twice / to the same value, undecodable data, parent not in an earlier slot, conflicting slices, contradictory last-slice flags) in increasing slots through ValidatedShred::try_new with the cached commitment -> BlockstoreImpl -> PoolImpl::add_block -> Votor, the last block honest (must still be reconstructed); (2) repair - C14's requester (hostile / unsolicited / mismatched / replayed responses) and responder (all request kinds and indices, unknown senders) cases; (3) consensus - C08's consistent multi-window histories with standstill triggers, interleaved with votes and certificates for far-future slots (finalized + 2*SLOTS_PER_EPOCH -1/+0/+1, 2^32, 2^63, 2^64-5..2^64-1), pruned slots and one validator equivocating in every way, every pool event handed to a real Votor; (4) Votor - C05's event scenarios plus blockstore events and time-outs for slots 2^63-1, 2^63, 2^64-8..2^64-1; (4b) the real produce_slice_payload on scripted transaction sources (payload lengths around 0 / 511 / 512 / 513 / 1100 / 1492 / beyond the MTU, mixed, floods of maximal datagrams, the pinned 61x512+1100 shape, fills that leave exactly 519 / 520 / 521 bytes, with and without parent; the source pends at the end so that the time-out ends the slice) and the real apply_parent_ready (same block, other block in the same / an earlier / a later slot), both through the cfg hooks; (5) four real clusters (2 Alpenglow nodes with 5/6 of the stake + 1 Byzantine validator holding real keys + an outside attacker) over SimulatedNetwork: all-interfaces hostile traffic that must be survived (far-future / pruned / equivocating / impersonated votes, under-staked / forged / wrong-length / replayed-valid certificates, Byzantine block shapes incl. far-future windows, odd / empty / oversize / mis-tagged / unequal shards, contradictory last flags, wrong leader, repair requests with out-of-range indices and unknown senders, unsolicited and mismatched repair responses, transactions within the limit, raw and truncated datagrams on all five sockets), a flood of maximal transactions, shreds for the last u64 leader window, and an equivocating leader before a handover; non-trivial = hostile content reached a decision (InvalidBlock / finalization / votes) or a cluster ran".into();
    CaseSet { header: "From AG Require Import Model.Pool Model.Blockstore Model.Repair Model.Votor Oracle.C13 Oracle.C14 Oracle.PoolRun Oracle.VotorRun Oracle.C10.\n".to_string(), runner: "c10_run".to_string(), defs: Vec::new(), cases, descr, sigs, stats }
}

pub fn probe() {
    install_hook();
    let which = std::env::var("C10_SCENARIO").unwrap_or_default();
    let scs: Vec<Scenario> = match which.as_str() { "1" => vec![Scenario::HostileAll], "2" => vec![Scenario::TxOversizeFlood], "3" => vec![Scenario::LastWindowShreds], "4" => vec![Scenario::EquivocationHandover], _ => vec![Scenario::HostileAll, Scenario::TxOversizeFlood, Scenario::LastWindowShreds, Scenario::EquivocationHandover] };
    for sc in scs {
        let before = PANICS.lock().unwrap().len();
        let t = Instant::now();
        let o = run_node_scenario(sc, 1);
        let all = PANICS.lock().unwrap().clone();
        println!("== {} ({:?}): param {:?} fin {:?} -> {:?} responder_ok {} note {} sent {:?}", sc.name(), t.elapsed(), o.param, o.fin_mid, o.fin_end, o.responder_ok, o.note, o.sent);
        for p in &all[before..] { println!("   PANIC {}", p.replace('\n', " | ")); }
    }
    println!("exec probe: {}", probe_execution_channel());
    println!("peer probe: {}", probe_pick_random_peer());
}
