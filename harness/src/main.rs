//! agverif: harness tying the Coq models in /verif/coq to /repo's current working tree.
//!   agverif params                      -> Gen/Params.v on stdout
//!   agverif gen <ID> <tier> <seed> <outdir> [shards]
//!        runs the implementation on generated cases and writes <outdir>/cases_<k>.v
//!        (cases + implementation outputs as Coq terms), descr.txt and stats.json
mod coqfmt;
mod params;
mod rng;
mod c15;
mod c17;
mod c16;
mod pool;
mod poolgen;
mod votor;
mod c01;
mod c09;
mod sim;
mod c02;
mod c10;
mod c20;
mod c19;
mod c11;
mod c12;
mod c13;
mod c14;

use std::fs;
use std::io::Write;

#[derive(Clone, Copy, PartialEq, Eq, Debug)]
pub enum Tier {
    Quick,
    Thorough,
}

#[derive(Default)]
pub struct Stats {
    pub evaluations: u64,
    pub distinct_nontrivial: u64,
    pub rule: String,
    pub samples: Vec<String>,
    pub distribution: Vec<(String, String)>,
    /// violations decided by the harness itself (e.g. panics): (case id, signature)
    pub harness_findings: Vec<(u64, String)>,
}

pub struct CaseSet {
    pub header: String,
    /// Coq function of type `list case -> list (N * N * N)`
    pub runner: String,
    /// interned byte-string definitions (`Definition hx<i> := ...`), index = i
    pub defs: Vec<String>,
    pub cases: Vec<String>,
    pub descr: Vec<String>,
    /// failure signatures per (case, sub-case) used to match KNOWN_FINDINGS entries
    pub sigs: Vec<(u64, u64, String)>,
    pub stats: Stats,
}

fn json_str(s: &str) -> String {
    let mut o = String::from("\"");
    for c in s.chars() {
        match c {
            '"' => o.push_str("\\\""),
            '\\' => o.push_str("\\\\"),
            '\n' => o.push_str("\\n"),
            '\t' => o.push_str("\\t"),
            c if (c as u32) < 0x20 => o.push_str(&format!("\\u{:04x}", c as u32)),
            c => o.push(c),
        }
    }
    o.push('"');
    o
}

fn write_caseset(cs: &CaseSet, outdir: &str, shards: usize) {
    fs::create_dir_all(outdir).expect("mkdir");
    let mut f = fs::File::create(format!("{}/sigs.tsv", outdir)).expect("create");
    for (c, s, sig) in &cs.sigs {
        writeln!(f, "{}\t{}\t{}", c, s, sig).unwrap();
    }
    drop(f);
    let n = cs.cases.len();
    let shards = shards.max(1).min(n.max(1));
    for k in 0..shards {
        let mut f = fs::File::create(format!("{}/cases_{}.v", outdir, k)).expect("create");
        writeln!(f, "From Coq Require Import List NArith String Bool ZArith.").unwrap();
        writeln!(f, "{}", cs.header).unwrap();
        writeln!(f, "Import ListNotations.").unwrap();
        let mine: Vec<&String> = cs.cases.iter().enumerate().filter(|(i, _)| i % shards == k).map(|(_, c)| c).collect();
        // emit only the interned definitions this shard refers to
        let mut used = vec![false; cs.defs.len()];
        for c in &mine {
            let b = c.as_bytes();
            let mut i = 0;
            while i + 2 < b.len() {
                if b[i] == b'h' && b[i + 1] == b'x' && b[i + 2].is_ascii_digit() && (i == 0 || !b[i - 1].is_ascii_alphanumeric()) {
                    let mut j = i + 2;
                    let mut v = 0usize;
                    while j < b.len() && b[j].is_ascii_digit() { v = v * 10 + (b[j] - b'0') as usize; j += 1; }
                    if v < used.len() { used[v] = true; }
                    i = j;
                } else { i += 1; }
            }
        }
        for (i, d) in cs.defs.iter().enumerate() { if used[i] { writeln!(f, "{}", d).unwrap(); } }
        writeln!(f, "Definition cases := [").unwrap();
        for (i, c) in mine.iter().enumerate() {
            writeln!(f, "  {}{}", c, if i + 1 < mine.len() { ";" } else { "" }).unwrap();
        }
        writeln!(f, "].").unwrap();
        writeln!(f, "Eval vm_compute in (({} cases) ++ [(4242424242%N, 0%N, 0%N)]).", cs.runner).unwrap();
    }
    let mut f = fs::File::create(format!("{}/descr.txt", outdir)).expect("create");
    for d in &cs.descr {
        writeln!(f, "{}", d).unwrap();
    }
    let mut f = fs::File::create(format!("{}/cases.txt", outdir)).expect("create");
    for c in &cs.cases {
        writeln!(f, "{}", c).unwrap();
    }
    let s = &cs.stats;
    let mut j = String::from("{");
    j.push_str(&format!("\"evaluations\": {}, \"distinct_nontrivial\": {}, \"shards\": {}, \"cases\": {}, ", s.evaluations, s.distinct_nontrivial, shards, n));
    j.push_str(&format!("\"rule\": {}, ", json_str(&s.rule)));
    j.push_str("\"samples\": [");
    j.push_str(&s.samples.iter().map(|x| json_str(x)).collect::<Vec<_>>().join(", "));
    j.push_str("], \"input_distribution\": {");
    j.push_str(&s.distribution.iter().map(|(k, v)| format!("{}: {}", json_str(k), json_str(v))).collect::<Vec<_>>().join(", "));
    j.push_str("}, \"harness_findings\": [");
    j.push_str(&s.harness_findings.iter().map(|(c, sig)| format!("[{}, {}]", c, json_str(sig))).collect::<Vec<_>>().join(", "));
    j.push_str("]}");
    fs::write(format!("{}/stats.json", outdir), j).expect("write stats");
}

pub static LAST_PANIC: std::sync::Mutex<String> = std::sync::Mutex::new(String::new());

fn main() {
    let r = std::panic::catch_unwind(real_main);
    if r.is_err() {
        eprintln!("agverif: harness panicked: {}", LAST_PANIC.lock().unwrap());
        std::process::exit(101);
    }
}

fn real_main() {
    let args: Vec<String> = std::env::args().collect();
    if args.len() < 2 {
        eprintln!("usage: agverif params | gen <ID> <quick|thorough> <seed> <outdir> [shards]");
        std::process::exit(2);
    }
    match args[1].as_str() {
        "params" => print!("{}", params::params()),
        // C10: run the cluster scenarios on their own (C10_SCENARIO=1..4) and print what happened
        "probe10" => c10::probe(),
        "gen" => {
            let id = args[2].as_str();
            let tier = if args[3] == "thorough" { Tier::Thorough } else { Tier::Quick };
            let seed: u64 = args[4].parse().expect("seed");
            let outdir = &args[5];
            let shards: usize = args.get(6).map(|s| s.parse().expect("shards")).unwrap_or(16);
            // keep panics of the implementation from aborting the harness; generators use catch_unwind
            std::panic::set_hook(Box::new(|info| {
                if std::env::var("AGVERIF_DEBUG").is_ok() {
                    eprintln!("[panic] {}", info);
                }
                *LAST_PANIC.lock().unwrap() = format!("{}", info);
            }));
            // a generator relies on the implementation behaving as on the unchanged tree where the property obliges it to
            // (e.g. an in-limit slice can be shredded); if such a call panics or fails, the generator's own `expect`
            // aborts it - that is reported as a finding with the panic location, never as a silent infrastructure error
            let generated = std::panic::catch_unwind(std::panic::AssertUnwindSafe(|| match id {
                "C12" => c12::gen_c12(seed, tier),
                "C13" => c13::gen_c13(seed, tier),
                "C14" => c14::gen_c14(seed, tier),
                "C11" => c11::gen_c11(seed, tier),
                "C19" => c19::gen_c19(seed, tier),
                "C20" => c20::gen_c20(seed, tier),
                "C01" => c01::gen_c01(seed, tier),
                "C10" => c10::gen_c10(seed, tier),
                "C02" => c02::gen_c02(seed, tier),
                "C01SIM" => c02::gen_c01(seed, tier),
                "C15" => c15::generate(seed, tier),
                "C17" => c17::gen_c17(seed, tier),
                "C16" => c16::gen_c16(seed, tier),
                "C03" => poolgen::gen_c03(seed, tier),
                "C04" => poolgen::gen_c04(seed, tier),
                "C05" => votor::gen_c05(seed, tier),
                "C06" => poolgen::gen_c06(seed, tier),
                "C09" => c09::gen_c09(seed, tier),
                "C07" => poolgen::gen_c07(seed, tier),
                "C08" => poolgen::gen_c08(seed, tier),
                "C18" => poolgen::gen_c18(seed, tier),
                _ => {
                    eprintln!("unknown property {}", id);
                    std::process::exit(2);
                }
            }));
            let mut cs = match generated {
                Ok(cs) => cs,
                Err(_) => {
                    let msg = LAST_PANIC.lock().unwrap().clone();
                    eprintln!("agverif: generator for {} aborted: {}", id, msg);
                    let short: String = msg.replace('\n', " ").chars().filter(|c| c.is_ascii_graphic() || *c == ' ').take(160).collect();
                    let mut stats = Stats::default();
                    stats.rule = "the generator aborted: a call of the implementation that the generator needs to succeed (it does on the unchanged tree) panicked or failed".into();
                    stats.harness_findings.push((0, format!("harness:generator-aborted:{}", short.replace(' ', "-"))));
                    CaseSet { header: String::new(), runner: "(fun (_ : list nat) => @nil (N * N * N)%type)".into(), defs: Vec::new(), cases: Vec::new(),
                              descr: vec![format!("case 0: the {} generator aborted: {}", id, short)], sigs: Vec::new(), stats }
                }
            };
            if let Some(pos) = args.iter().position(|a| a == "--runner") {
                cs.runner = args[pos + 1].clone();
            }
            if let Some(pos) = args.iter().position(|a| a == "--header") {
                cs.header = format!("{}\n", args[pos + 1]);
            }
            if let Some(pos) = args.iter().position(|a| a == "--only") {
                let only: usize = args[pos + 1].parse().expect("case id");
                if only >= cs.cases.len() { write_caseset(&cs, outdir, shards); return; }
                cs.cases = vec![cs.cases[only].clone()];
                cs.descr = vec![cs.descr.get(only).cloned().unwrap_or_default()];
            }
            write_caseset(&cs, outdir, shards);
        }
        _ => {
            eprintln!("unknown command");
            std::process::exit(2);
        }
    }
}
