fn main(){println!("hi");}
