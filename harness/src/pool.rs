//! Shared driver for the pool properties (C03, C04, C06, C07, C08, C18): runs operation
//! sequences on the real `PoolImpl` and renders operations + observed outputs as Coq terms
//! of Model/Pool.v / Oracle/PoolRun.v.
use std::collections::HashMap;
use std::panic::{AssertUnwindSafe, catch_unwind};
use std::sync::Arc;

use alpenglow::consensus::{
    Cert, EpochInfo, FastFinalCert, FinalCert, FinalVote, NotarCert, NotarFallbackCert,
    NotarFallbackVote, NotarVote, Pool, PoolEvent, PoolImpl, SkipCert, SkipFallbackVote, SkipVote,
    ValidatedCert, ValidatedVote, ValidatorEpochInfo, Vote,
};
use alpenglow::crypto::aggsig::SecretKey;
use alpenglow::crypto::merkle::BlockHash;
use alpenglow::crypto::{Hash, signature};
use alpenglow::network::localhost_ip_sockaddr;
use alpenglow::types::Slot;
use alpenglow::{BlockId, Stake, ValidatorIndex, ValidatorInfo};
use either::Either;
use tokio::sync::mpsc;
use tokio::sync::oneshot;

use crate::coqfmt as cf;

pub const SLOTS_PER_WINDOW: u64 = alpenglow::types::SLOTS_PER_WINDOW;

#[derive(Clone, Copy, Debug, PartialEq, Eq, Hash)]
pub enum VK {
    Notar,
    NotarFb,
    Skip,
    SkipFb,
    Final,
}

#[derive(Clone, Copy, Debug, PartialEq, Eq, Hash)]
pub enum CK {
    Notar,
    NotarFb,
    Skip,
    FastFinal,
    Final,
}

#[derive(Clone, Debug)]
pub enum Op {
    Vote { slot: u64, kind: VK, hash: u64, signer: u64 },
    /// certificate built from the listed signers' votes (s1: first half, s2: second half)
    Cert { slot: u64, kind: CK, hash: u64, s1: Vec<u64>, s2: Vec<u64> },
    Block { b: (u64, u64), p: (u64, u64) },
    Standstill,
    Wait(u64),
    /// registers a waiter and drops its receiver at once (a block producer that gave up on the window)
    WaitAbandon(u64),
}

/// Interned block hash id -> 32 bytes such that byte order = numeric order; 0 = genesis.
pub fn hash_of(id: u64) -> BlockHash {
    let mut b = [0u8; 32];
    b[..8].copy_from_slice(&id.to_be_bytes());
    let h: Hash = wincode::deserialize(&b).expect("32 bytes");
    h.into()
}

pub fn id_of(h: &BlockHash) -> u64 {
    let b: &[u8] = {
        use alpenglow::crypto::merkle::MerkleRoot;
        h.as_hash().as_ref()
    };
    u64::from_be_bytes(b[..8].try_into().unwrap())
}

/// Keys are generated once per validator count and reused; stakes vary per case.
pub struct Keys {
    pub sks: Vec<SecretKey>,
    pub infos: Vec<ValidatorInfo>,
    vote_cache: HashMap<(u64, VK, u64, u64), Vote>,
}

impl Keys {
    pub fn new(n: usize) -> Self {
        let mut rng = rand::rng();
        let mut sks = Vec::new();
        let mut infos = Vec::new();
        for i in 0..n {
            let sk = signature::SecretKey::new(&mut rng);
            let vsk = SecretKey::new(&mut rng);
            infos.push(ValidatorInfo {
                id: ValidatorIndex::new(i as u64),
                stake: Stake::new(1),
                pubkey: sk.to_pk(),
                voting_pubkey: vsk.to_pk(),
                all2all_address: localhost_ip_sockaddr(0),
                disseminator_address: localhost_ip_sockaddr(0),
                repair_requester_address: localhost_ip_sockaddr(0),
                repair_responder_address: localhost_ip_sockaddr(0),
            });
            sks.push(vsk);
        }
        Keys { sks, infos, vote_cache: HashMap::new() }
    }

    pub fn epoch(&self, stakes: &[u64], own: u64) -> Arc<ValidatorEpochInfo> {
        let mut infos = self.infos.clone();
        for (i, s) in stakes.iter().enumerate() {
            infos[i].stake = Stake::new(*s);
        }
        infos.truncate(stakes.len());
        Arc::new(ValidatorEpochInfo::new(ValidatorIndex::new(own), EpochInfo::new(infos)))
    }

    pub fn vote(&mut self, slot: u64, kind: VK, hash: u64, signer: u64) -> Vote {
        let key = (slot, kind, hash, signer);
        if let Some(v) = self.vote_cache.get(&key) {
            return v.clone();
        }
        let sk = &self.sks[signer as usize];
        let s = Slot::new(slot);
        let v = ValidatorIndex::new(signer);
        let vote = match kind {
            VK::Notar => Vote::new_notar(s, hash_of(hash), sk, v),
            VK::NotarFb => Vote::new_notar_fallback(s, hash_of(hash), sk, v),
            VK::Skip => Vote::new_skip(s, sk, v),
            VK::SkipFb => Vote::new_skip_fallback(s, sk, v),
            VK::Final => Vote::new_final(s, sk, v),
        };
        self.vote_cache.insert(key, vote.clone());
        vote
    }

    /// Builds a real certificate from the votes of the given signers (None if no signer at all).
    pub fn cert(&mut self, infos: &[ValidatorInfo], slot: u64, kind: CK, hash: u64, s1: &[u64], s2: &[u64]) -> Option<Cert> {
        if s1.is_empty() && s2.is_empty() {
            return None;
        }
        let s = Slot::new(slot);
        let nv = |k: &Keys, xs: &[u64]| -> Vec<NotarVote> {
            xs.iter().map(|&i| NotarVote::new(s, hash_of(hash), &k.sks[i as usize], ValidatorIndex::new(i))).collect()
        };
        Some(match kind {
            CK::Notar => { if s1.is_empty() { return None; } Cert::Notar(NotarCert::try_new(&nv(self, s1), infos).ok()?) }
            CK::FastFinal => { if s1.is_empty() { return None; } Cert::FastFinal(FastFinalCert::try_new(&nv(self, s1), infos).ok()?) }
            CK::NotarFb => {
                let b: Vec<NotarFallbackVote> = s2.iter().map(|&i| NotarFallbackVote::new(s, hash_of(hash), &self.sks[i as usize], ValidatorIndex::new(i))).collect();
                Cert::NotarFallback(NotarFallbackCert::try_new(&nv(self, s1), &b, infos).ok()?)
            }
            CK::Skip => {
                let a: Vec<SkipVote> = s1.iter().map(|&i| SkipVote::new(s, &self.sks[i as usize], ValidatorIndex::new(i))).collect();
                let b: Vec<SkipFallbackVote> = s2.iter().map(|&i| SkipFallbackVote::new(s, &self.sks[i as usize], ValidatorIndex::new(i))).collect();
                Cert::Skip(SkipCert::try_new(&a, &b, infos).ok()?)
            }
            CK::Final => {
                if s1.is_empty() { return None; }
                let a: Vec<FinalVote> = s1.iter().map(|&i| FinalVote::new(s, &self.sks[i as usize], ValidatorIndex::new(i))).collect();
                Cert::Final(FinalCert::try_new(&a, infos).ok()?)
            }
        })
    }
}

// ---------- rendering ----------
pub fn r_bid(b: (u64, u64)) -> String {
    format!("({}, {})", cf::n(b.0), cf::n(b.1))
}
fn r_vk(kind: VK, hash: u64) -> String {
    match kind {
        VK::Notar => format!("(KNotar {})", cf::n(hash)),
        VK::NotarFb => format!("(KNotarFb {})", cf::n(hash)),
        VK::Skip => "KSkip".into(),
        VK::SkipFb => "KSkipFb".into(),
        VK::Final => "KFinal".into(),
    }
}
pub fn r_vote_parts(slot: u64, kind: VK, hash: u64, signer: u64) -> String {
    format!("(mkVote {} {} {})", cf::n(slot), r_vk(kind, hash), cf::n(signer))
}
pub fn r_vote(v: &Vote) -> String {
    let (kind, hash) = match v {
        Vote::Notar(_) => (VK::Notar, id_of(v.block_hash().unwrap())),
        Vote::NotarFallback(_) => (VK::NotarFb, id_of(v.block_hash().unwrap())),
        Vote::Skip(_) => (VK::Skip, 0),
        Vote::SkipFallback(_) => (VK::SkipFb, 0),
        Vote::Final(_) => (VK::Final, 0),
    };
    r_vote_parts(v.slot().inner(), kind, hash, v.signer().inner())
}
pub fn r_cert(c: &Cert) -> String {
    let k = match c {
        Cert::Notar(_) => format!("(CNotar {})", cf::n(id_of(c.block_hash().unwrap()))),
        Cert::NotarFallback(_) => format!("(CNotarFb {})", cf::n(id_of(c.block_hash().unwrap()))),
        Cert::Skip(_) => "CSkip".into(),
        Cert::FastFinal(_) => format!("(CFastFinal {})", cf::n(id_of(c.block_hash().unwrap()))),
        Cert::Final(_) => "CFinal".into(),
    };
    let (a, b) = c.verif_halves();
    let la: Vec<String> = a.iter().map(|v| cf::n(v.inner())).collect();
    let lb: Vec<String> = b.iter().map(|v| cf::n(v.inner())).collect();
    format!("(mkCert {} {} {} {} {})", cf::n(c.slot().inner()), k, cf::list(&la), cf::list(&lb), cf::n(c.stake().inner()))
}
pub fn r_event(e: &PoolEvent) -> String {
    match e {
        PoolEvent::ParentReady { slot, parent } => format!("(EParentReady {} {})", cf::n(slot.inner()), r_bid((parent.0.inner(), id_of(&parent.1)))),
        PoolEvent::SafeToNotar((s, h)) => format!("(ESafeToNotar {})", r_bid((s.inner(), id_of(h)))),
        PoolEvent::SafeToSkip(s) => format!("(ESafeToSkip {})", cf::n(s.inner())),
        PoolEvent::CertCreated(c) => format!("(ECertCreated {})", r_cert(c)),
        PoolEvent::Standstill(s, cs, vs) => format!(
            "(EStandstill {} {} {})",
            cf::n(s.inner()),
            cf::list(&cs.iter().map(r_cert).collect::<Vec<_>>()),
            cf::list(&vs.iter().map(r_vote).collect::<Vec<_>>())
        ),
    }
}

pub struct StepOut {
    pub op_txt: String,
    pub res_txt: String,
    pub events: Vec<PoolEvent>,
    pub repairs: Vec<(u64, u64)>,
    pub woken: Vec<(u64, (u64, u64))>,
    pub finalized: u64,
    pub first_unpruned: u64,
    pub retained: Vec<u64>,
    pub parents_ready: Vec<(u64, Vec<(u64, u64)>)>,
    pub panicked: bool,
    /// certificates announced in this step that ValidatedCert::try_new rejects
    pub invalid_certs: Vec<String>,
    pub verdict: String,
    /// problems found when the standstill bundle is validated and replayed into a fresh real pool
    pub bundle_problem: Option<String>,
}

pub struct Runner {
    rt: tokio::runtime::Runtime,
    pub pool: PoolImpl,
    pub epoch: Arc<ValidatorEpochInfo>,
    ev_rx: mpsc::Receiver<PoolEvent>,
    rp_rx: mpsc::Receiver<BlockId>,
    waiters: Vec<(u64, oneshot::Receiver<BlockId>)>,
    pub max_slot: u64,
    /// slots above this bound do not widen the observation range (far-future slots of hostile streams, C10)
    pub slot_cap: u64,
}

impl Runner {
    pub fn new(epoch: Arc<ValidatorEpochInfo>) -> Self {
        let rt = tokio::runtime::Builder::new_current_thread().enable_all().build().expect("rt");
        let (ev_tx, ev_rx) = mpsc::channel(1 << 16);
        let (rp_tx, rp_rx) = mpsc::channel(1 << 16);
        let pool = PoolImpl::new(epoch.clone(), ev_tx, rp_tx);
        Runner { rt, pool, epoch, ev_rx, rp_rx, waiters: Vec::new(), max_slot: 8, slot_cap: u64::MAX }
    }

    pub fn step(&mut self, keys: &mut Keys, op: &Op) -> StepOut {
        let infos: Vec<ValidatorInfo> = self.epoch.epoch_info().validators().to_vec();
        let mut verdict = String::new();
        let mut wait_res: Option<Option<(u64, u64)>> = None;
        let mut abandoned_now: Option<u64> = None;
        let (op_txt, res): (String, Result<String, ()>) = match op {
            Op::Vote { slot, kind, hash, signer } => {
                if *slot <= self.slot_cap { self.max_slot = self.max_slot.max(*slot); }
                let vote = keys.vote(*slot, *kind, *hash, *signer);
                let vv = ValidatedVote::try_new(vote, self.epoch.epoch_info()).expect("harness votes are validly signed");
                let pool = &mut self.pool;
                let rt = &self.rt;
                let r = catch_unwind(AssertUnwindSafe(|| rt.block_on(pool.add_vote(vv))));
                let txt = format!("(OpVote {})", r_vote_parts(*slot, *kind, *hash, *signer));
                match r {
                    Ok(v) => {
                        use alpenglow::consensus::AddVoteError as E;
                        let s = match v {
                            Ok(()) => "VOk".to_string(),
                            Err(E::Duplicate) => "VDuplicate".to_string(),
                            Err(E::SlotOutOfBounds) => "VOutOfBounds".to_string(),
                            Err(E::Slashable(o)) => {
                                let d = format!("{:?}", o);
                                let name = if d.starts_with("NotarDifferentHash") { "ONotarDifferentHash" }
                                    else if d.starts_with("SkipAndNotarize") { "OSkipAndNotarize" }
                                    else if d.starts_with("SkipAndFinalize") { "OSkipAndFinalize" }
                                    else { "ONotarFallbackAndFinalize" };
                                format!("(VSlashable {})", name)
                            }
                        };
                        verdict = s.clone();
                        (txt, Ok(format!("(RVerdict {})", s)))
                    }
                    Err(_) => (txt, Err(())),
                }
            }
            Op::Cert { slot, kind, hash, s1, s2 } => {
                if *slot <= self.slot_cap { self.max_slot = self.max_slot.max(*slot); }
                let cert = keys.cert(&infos, *slot, *kind, *hash, s1, s2).expect("generator builds non-empty certs");
                let txt = format!("(OpCert {})", r_cert(&cert));
                match ValidatedCert::try_new(cert, self.epoch.epoch_info()) {
                    Err(_) => {
                        // not admissible: the pool never sees it; rendered as a no-op verdict
                        verdict = "rejected-by-validation".into();
                        ("OpNoop".to_string(), Ok("(RVerdict VNone)".to_string()))
                    }
                    Ok(vc) => {
                        let pool = &mut self.pool;
                        let rt = &self.rt;
                        let r = catch_unwind(AssertUnwindSafe(|| rt.block_on(pool.add_cert(vc))));
                        match r {
                            Ok(v) => {
                                let d = format!("{:?}", v);
                                let s = if v.is_ok() { "VOk" } else if d.contains("Duplicate") { "VDuplicate" } else { "VOutOfBounds" };
                                verdict = s.to_string();
                                (txt, Ok(format!("(RVerdict {})", s)))
                            }
                            Err(_) => (txt, Err(())),
                        }
                    }
                }
            }
            Op::Block { b, p } => {
                if b.0 <= self.slot_cap { self.max_slot = self.max_slot.max(b.0); }
                let bid: BlockId = (Slot::new(b.0), hash_of(b.1));
                let pid: BlockId = (Slot::new(p.0), hash_of(p.1));
                let pool = &mut self.pool;
                let rt = &self.rt;
                let r = catch_unwind(AssertUnwindSafe(|| rt.block_on(pool.add_block(bid, pid))));
                let txt = format!("(OpBlock {} {})", r_bid(*b), r_bid(*p));
                match r {
                    Ok(()) => (txt, Ok("(RVerdict VNone)".to_string())),
                    Err(_) => (txt, Err(())),
                }
            }
            Op::Standstill => {
                let pool = &self.pool;
                let rt = &self.rt;
                let r = catch_unwind(AssertUnwindSafe(|| rt.block_on(pool.recover_from_standstill())));
                match r {
                    Ok(()) => ("OpStandstill".to_string(), Ok("(RVerdict VNone)".to_string())),
                    Err(_) => ("OpStandstill".to_string(), Err(())),
                }
            }
            Op::Wait(s) => {
                let pool = &mut self.pool;
                let slot = Slot::new(*s);
                let r = catch_unwind(AssertUnwindSafe(|| pool.wait_for_parent_ready(slot)));
                let txt = format!("(OpWait {})", cf::n(*s));
                match r {
                    Ok(Either::Left(id)) => {
                        let v = (id.0.inner(), id_of(&id.1));
                        wait_res = Some(Some(v));
                        (txt, Ok(format!("(RWait (Some {}))", r_bid(v))))
                    }
                    Ok(Either::Right(rx)) => {
                        self.waiters.push((*s, rx));
                        wait_res = Some(None);
                        (txt, Ok("(RWait None)".to_string()))
                    }
                    Err(_) => (txt, Err(())),
                }
            }
            Op::WaitAbandon(s) => {
                let pool = &mut self.pool;
                let slot = Slot::new(*s);
                let r = catch_unwind(AssertUnwindSafe(|| pool.wait_for_parent_ready(slot)));
                let txt = format!("(OpWait {})", cf::n(*s));
                match r {
                    Ok(Either::Left(id)) => {
                        let v = (id.0.inner(), id_of(&id.1));
                        (txt, Ok(format!("(RWait (Some {}))", r_bid(v))))
                    }
                    Ok(Either::Right(rx)) => {
                        drop(rx);
                        abandoned_now = Some(*s);
                        (txt, Ok("(RWait None)".to_string()))
                    }
                    Err(_) => (txt, Err(())),
                }
            }
        };
        let _ = wait_res;
        let mut events = Vec::new();
        while let Ok(e) = self.ev_rx.try_recv() {
            events.push(e);
        }
        let mut repairs = Vec::new();
        while let Ok(b) = self.rp_rx.try_recv() {
            repairs.push((b.0.inner(), id_of(&b.1)));
        }
        let mut woken = Vec::new();
        let mut still = Vec::new();
        for (s, mut rx) in self.waiters.drain(..) {
            match rx.try_recv() {
                Ok(id) => woken.push((s, (id.0.inner(), id_of(&id.1)))),
                Err(oneshot::error::TryRecvError::Empty) => still.push((s, rx)),
                Err(oneshot::error::TryRecvError::Closed) => {}
            }
        }
        self.waiters = still;
        // marker of an abandoned waiter: a woken entry on the OpWait step itself (see Oracle/PoolRun.v)
        if let Some(s) = abandoned_now { woken.push((s, (0, 0))); }
        let panicked = res.is_err();
        let mut invalid_certs = Vec::new();
        for e in &events {
            if let PoolEvent::CertCreated(c) = e {
                if ValidatedCert::try_new(c.clone(), self.epoch.epoch_info()).is_err() {
                    invalid_certs.push(r_cert(c));
                }
            }
        }
        let mut bundle_problem = None;
        if !panicked {
            for e in &events {
                if let PoolEvent::Standstill(_, cs, vs) = e {
                    bundle_problem = check_bundle(&self.epoch, cs, vs, self.pool.finalized_slot().inner(), &self.pool, self.max_slot);
                }
            }
        }
        let (finalized, first_unpruned, retained, parents_ready) = if panicked {
            (0, 0, Vec::new(), Vec::new())
        } else {
            let mut prs = Vec::new();
            let mut s = 0;
            while s <= self.max_slot + SLOTS_PER_WINDOW {
                let mut l: Vec<(u64, u64)> = self.pool.parents_ready(Slot::new(s)).iter().map(|b| (b.0.inner(), id_of(&b.1))).collect();
                l.sort();
                prs.push((s, l));
                s += SLOTS_PER_WINDOW;
            }
            (
                self.pool.finalized_slot().inner(),
                self.pool.verif_first_unpruned_slot().inner(),
                self.pool.verif_retained_slots().iter().map(|s| s.inner()).collect(),
                prs,
            )
        };
        StepOut {
            op_txt,
            res_txt: res.unwrap_or_else(|_| "RPanic".to_string()),
            events, repairs, woken, finalized, first_unpruned, retained, parents_ready, panicked, invalid_certs, verdict, bundle_problem,
        }
    }
}

/// Every element of the bundle must pass validation at a receiver, and a second, fresh real pool fed
/// only the bundle must reach the same finalized slot and the same ready parents for later windows.
pub fn check_bundle(epoch: &Arc<ValidatorEpochInfo>, cs: &[Cert], vs: &[Vote], fin: u64, orig: &PoolImpl, max_slot: u64) -> Option<String> {
    for c in cs {
        if ValidatedCert::try_new(c.clone(), epoch.epoch_info()).is_err() {
            return Some(format!("bundle certificate fails validation: {}", r_cert(c)));
        }
    }
    for v in vs {
        if ValidatedVote::try_new(v.clone(), epoch.epoch_info()).is_err() {
            return Some(format!("bundle vote fails validation: {}", r_vote(v)));
        }
    }
    let rt = tokio::runtime::Builder::new_current_thread().enable_all().build().expect("rt");
    let (ev_tx, _ev_rx) = mpsc::channel(1 << 16);
    let (rp_tx, _rp_rx) = mpsc::channel(1 << 16);
    let mut fresh = PoolImpl::new(epoch.clone(), ev_tx, rp_tx);
    let r = catch_unwind(AssertUnwindSafe(|| {
        for c in cs {
            let vc = ValidatedCert::try_new(c.clone(), epoch.epoch_info()).unwrap();
            let _ = rt.block_on(fresh.add_cert(vc));
        }
        for v in vs {
            let vv = ValidatedVote::try_new(v.clone(), epoch.epoch_info()).unwrap();
            let _ = rt.block_on(fresh.add_vote(vv));
        }
    }));
    if r.is_err() {
        return Some("fresh pool panicked while receiving the bundle".into());
    }
    if fresh.finalized_slot().inner() != fin {
        return Some(format!("fresh pool reaches finalized slot {} instead of {}", fresh.finalized_slot().inner(), fin));
    }
    let mut s = 0;
    while s <= max_slot + SLOTS_PER_WINDOW {
        if s > fin {
            let mut a: Vec<(u64, u64)> = orig.parents_ready(Slot::new(s)).iter().map(|b| (b.0.inner(), id_of(&b.1))).collect();
            let mut b: Vec<(u64, u64)> = fresh.parents_ready(Slot::new(s)).iter().map(|b| (b.0.inner(), id_of(&b.1))).collect();
            a.sort(); b.sort();
            if a != b {
                return Some(format!("fresh pool has ready parents {:?} for window {} instead of {:?}", b, s, a));
            }
        }
        s += SLOTS_PER_WINDOW;
    }
    None
}

pub fn r_step(o: &StepOut) -> String {
    let evs: Vec<String> = o.events.iter().map(r_event).collect();
    let rps: Vec<String> = o.repairs.iter().map(|b| r_bid(*b)).collect();
    let wk: Vec<String> = o.woken.iter().map(|(s, b)| format!("(EWaiterWoken {} {})", cf::n(*s), r_bid(*b))).collect();
    let ret: Vec<String> = o.retained.iter().map(|s| cf::n(*s)).collect();
    let prs: Vec<String> = o.parents_ready.iter().map(|(s, l)| format!("({}, {})", cf::n(*s), cf::list(&l.iter().map(|b| r_bid(*b)).collect::<Vec<_>>()))).collect();
    format!(
        "(mkStep {} {} {} {} {} (mkObs {} {} {} {}))",
        o.op_txt, o.res_txt, cf::list(&evs), cf::list(&rps), cf::list(&wk),
        cf::n(o.finalized), cf::n(o.first_unpruned), cf::list(&ret), cf::list(&prs)
    )
}

/// Runs one case; returns the Coq term, per-step outputs (for statistics) and harness-level findings.
pub fn run_case(keys: &mut Keys, id: u64, stakes: &[u64], own: u64, ops: &[Op]) -> (String, Vec<StepOut>) {
    let epoch = keys.epoch(stakes, own);
    let mut runner = Runner::new(epoch);
    let mut outs = Vec::new();
    for op in ops {
        let o = runner.step(keys, op);
        let stop = o.panicked;
        outs.push(o);
        if stop {
            break;
        }
    }
    let steps: Vec<String> = outs.iter().map(r_step).collect();
    let st: Vec<String> = stakes.iter().map(|s| cf::n(*s)).collect();
    (format!("(PCase {} {} {} {})", cf::n(id), cf::list(&st), cf::n(own), cf::list(&steps)), outs)
}
