//! C11: erasure-coding round trip.  Runs the four real shredders (shred + deshred) on structured
//! slices and reconstruction subsets, on a hostile stream (other shredder's shreds, malicious
//! leader, mixed slices, misplaced shreds) and on a payload-length sweep, and renders cases for
//! Oracle/C11.v.  Shreds are taken apart / assembled through their wincode encoding.
use std::collections::{HashMap, HashSet};
use std::panic::{AssertUnwindSafe, catch_unwind};

use aes::Aes128;
use aes::cipher::{Array, KeyIvInit, StreamCipher};
use alpenglow::crypto::merkle::{BlockHash, SliceMerkleTree};
use alpenglow::crypto::signature::{PublicKey, SecretKey};
use alpenglow::shredder::{
    AontShredder, CodingOnlyShredder, DATA_SHREDS, DeshredError, MAX_DATA_PER_SLICE, PetsShredder,
    RegularShredder, Shred, ShredError, Shredder, TOTAL_SHREDS, ValidatedShred,
};
use alpenglow::types::{Slice, SliceIndex, Slot};
use ctr::Ctr64LE;
use reed_solomon_simd::{ReedSolomonDecoder, ReedSolomonEncoder};

use crate::rng::Rng;
use crate::{CaseSet, Stats, Tier};

const KEY_BYTES: usize = 16;
const VNAMES: [&str; 4] = ["regular", "coding-only", "aont", "pets"];

fn data_out(v: usize) -> usize {
    match v {
        0 => RegularShredder::DATA_OUTPUT_SHREDS,
        1 => CodingOnlyShredder::DATA_OUTPUT_SHREDS,
        2 => AontShredder::DATA_OUTPUT_SHREDS,
        _ => PetsShredder::DATA_OUTPUT_SHREDS,
    }
}
fn coding_out(v: usize) -> usize {
    TOTAL_SHREDS - data_out(v)
}
fn max_data_size(v: usize) -> usize {
    match v {
        0 => RegularShredder::MAX_DATA_SIZE,
        1 => CodingOnlyShredder::MAX_DATA_SIZE,
        2 => AontShredder::MAX_DATA_SIZE,
        _ => PetsShredder::MAX_DATA_SIZE,
    }
}
fn key_overhead(v: usize) -> usize {
    if v >= 2 { KEY_BYTES } else { 0 }
}

type Arr = [Option<ValidatedShred>; TOTAL_SHREDS];

// Besides a fresh instance per call, every call is repeated on ONE long-lived instance per shredder type
// (as the node reuses its shredders): the outcome must not depend on the instance's history.
thread_local! {
    static REUSED: std::cell::RefCell<HashMap<std::any::TypeId, Box<dyn std::any::Any>>> = std::cell::RefCell::new(HashMap::new());
}
fn with_reused<S: Shredder + 'static, R>(f: impl FnOnce(&mut S) -> R) -> Result<R, ()> {
    let mut inst: Box<S> = REUSED.with(|m| m.borrow_mut().remove(&std::any::TypeId::of::<S>())).and_then(|b| b.downcast::<S>().ok()).unwrap_or_else(|| Box::new(S::default()));
    let r = catch_unwind(AssertUnwindSafe(|| f(&mut inst)));
    match r {
        Ok(x) => { REUSED.with(|m| m.borrow_mut().insert(std::any::TypeId::of::<S>(), inst)); Ok(x) }
        Err(_) => Err(()), // a panicking instance is dropped; the next call starts a new one
    }
}
fn do_shred<S: Shredder + 'static>(slice: &Slice, sk: &SecretKey) -> Result<Result<Vec<ValidatedShred>, ShredError>, ()> {
    catch_unwind(AssertUnwindSafe(|| S::default().shred(slice, sk).map(|a| a.to_vec()))).map_err(|_| ())
}
/// One long-lived instance (as the node reuses its shredders) against a fresh instance per call, over a
/// deterministic sequence of shred / deshred calls with alternating slice sizes: the outcome must not depend
/// on the instance's history.  Returns (calls made, findings).
fn reuse_sequence<S: Shredder + 'static>(name: &str, max: usize, seed: u64, sk: &SecretKey, rounds: usize) -> (u64, Vec<String>) {
    let mut rng = crate::rng::Rng::new(seed ^ 0x5EED_11);
    let mut findings = Vec::new();
    let mut calls = 0u64;
    let sizes = [max, 0usize, 200.min(max), max, 1, max / 2, max, 64.min(max), max.saturating_sub(1), 3, max];
    let mut stored: Vec<Vec<ValidatedShred>> = Vec::new();
    // slices shredded by EVERY shredder type: fed to S they pass the shred count, the layout check and (mostly) the
    // Reed-Solomon / Merkle stage and fail late (padding, size, payload parsing) - the instance must forget them
    let mut foreign: Vec<Vec<ValidatedShred>> = Vec::new();
    for (k, len) in [max.min(32_000), 1usize, max / 3].into_iter().enumerate() {
        let sl = Slice { slot: Slot::new(2), slice_index: slice_index(k as u64), is_last: false, parent: None, data: rng.bytes(len) };
        for v in 0..4 { if let Ok(Ok(a)) = shred_v(v, &sl, sk) { foreign.push(a); } }
    }
    for r in 0..rounds {
        if r % 3 == 2 && !foreign.is_empty() {
            let src = &foreign[rng.below(foreign.len() as u64) as usize];
            let pat = rng.below(3);
            let mut a1: Arr = std::array::from_fn(|i| { let keep = match pat { 0 => i < 31 || i == 32, 1 => i % 2 == 0 || i >= 32, _ => i >= 16 && i < 52 }; if keep { Some(src[i].clone()) } else { None } });
            let mut a2: Arr = a1.clone();
            let fresh = catch_unwind(AssertUnwindSafe(|| S::default().deshred(&mut a1).map(|x| x.data.clone()).map_err(err_code))).map_err(|_| ());
            let reused = with_reused::<S, _>(|i| i.deshred(&mut a2).map(|x| x.data.clone()).map_err(err_code));
            calls += 1;
            if fresh != reused { findings.push(format!("shredder:{}:reused-instance-differs:deshred-of-foreign-slice", name)); }
        }
        let len = sizes[r % sizes.len()];
        let slice = Slice { slot: Slot::new(3 + r as u64), slice_index: slice_index(0), is_last: r % 2 == 0, parent: None, data: rng.bytes(len) };
        // deshred something of ANOTHER size first (every other round), then shred
        if r % 2 == 1 && !stored.is_empty() {
            let src = &stored[rng.below(stored.len() as u64) as usize];
            let mut a1: Arr = std::array::from_fn(|i| if i % 2 == 0 || i >= 32 { Some(src[i].clone()) } else { None });
            let mut a2: Arr = a1.clone();
            let fresh = catch_unwind(AssertUnwindSafe(|| S::default().deshred(&mut a1).map(|x| x.data.clone()).map_err(err_code))).map_err(|_| ());
            let reused = with_reused::<S, _>(|i| i.deshred(&mut a2).map(|x| x.data.clone()).map_err(err_code));
            calls += 1;
            if fresh != reused { findings.push(format!("shredder:{}:reused-instance-differs:deshred", name)); }
        }
        let fresh = catch_unwind(AssertUnwindSafe(|| S::default().shred(&slice, sk).map(|a| a.to_vec()))).map_err(|_| ());
        let reused = with_reused::<S, _>(|i| i.shred(&slice, sk).map(|a| a.to_vec()));
        calls += 1;
        let shape = |r: &Result<Result<Vec<ValidatedShred>, ShredError>, ()>| -> String { match r { Err(()) => "panic".into(), Ok(Err(_)) => "err".into(), Ok(Ok(v)) => format!("ok:{}:{}", v.len(), v.first().map(|x| wincode::serialize(x.as_shred()).map(|b| b.len()).unwrap_or(0)).unwrap_or(0)) } };
        if shape(&fresh) != shape(&reused) { findings.push(format!("shredder:{}:reused-instance-differs:shred:{}-vs-{}", name, shape(&fresh), shape(&reused))); }
        if let Ok(Ok(v)) = reused { stored.push(v); } else if let Ok(Ok(v)) = fresh { stored.push(v); }
    }
    findings.sort(); findings.dedup();
    (calls, findings)
}
fn shred_v(v: usize, slice: &Slice, sk: &SecretKey) -> Result<Result<Vec<ValidatedShred>, ShredError>, ()> {
    match v {
        0 => do_shred::<RegularShredder>(slice, sk),
        1 => do_shred::<CodingOnlyShredder>(slice, sk),
        2 => do_shred::<AontShredder>(slice, sk),
        _ => do_shred::<PetsShredder>(slice, sk),
    }
}
#[derive(Clone, PartialEq, Eq, Debug)]
struct RSlice {
    slot: u64,
    index: u64,
    last: bool,
    parent: Option<(u64, Vec<u8>)>,
    data: Vec<u8>,
    root: Vec<u8>,
}
enum DRes {
    Ok(RSlice),
    Err(u64),
    Panic,
}
fn err_code(e: DeshredError) -> u64 {
    match e {
        DeshredError::InvalidLayout => 0,
        DeshredError::NotEnoughShreds => 1,
        DeshredError::TooMuchData => 2,
        DeshredError::BadEncoding => 3,
        DeshredError::InvalidMerkleTree => 4,
    }
}
const ERR_NAMES: [&str; 5] = ["InvalidLayout", "NotEnoughShreds", "TooMuchData", "BadEncoding", "InvalidMerkleTree"];

fn do_deshred<S: Shredder + 'static>(arr: &mut Arr) -> DRes {
    let r = catch_unwind(AssertUnwindSafe(|| S::default().deshred(arr)));
    match r {
        Err(_) => DRes::Panic,
        Ok(Err(e)) => DRes::Err(err_code(e)),
        Ok(Ok(rs)) => {
            DRes::Ok(RSlice {
                slot: rs.slot.inner(),
                index: slice_index_value(&rs.slice_index),
                last: rs.is_last,
                parent: rs.parent.as_ref().map(|(s, h)| (s.inner(), wincode::serialize(h).unwrap())),
                data: rs.data.clone(),
                root: rs.slice_root().as_ref().to_vec(),
            })
        }
    }
}
fn deshred_v(v: usize, arr: &mut Arr) -> DRes {
    match v {
        0 => do_deshred::<RegularShredder>(arr),
        1 => do_deshred::<CodingOnlyShredder>(arr),
        2 => do_deshred::<AontShredder>(arr),
        _ => do_deshred::<PetsShredder>(arr),
    }
}

fn slice_index_value(i: &SliceIndex) -> u64 {
    u64::from_le_bytes(wincode::serialize(i).unwrap()[..8].try_into().unwrap())
}
fn slice_index(i: u64) -> SliceIndex {
    wincode::deserialize::<SliceIndex>(&i.to_le_bytes()).expect("slice index in range")
}
fn block_hash(b: &[u8]) -> BlockHash {
    wincode::deserialize::<BlockHash>(b).expect("32 bytes decode to a BlockHash")
}

/// A shred taken apart (wincode layout of `Shred`) plus the cached root of the `ValidatedShred`.
#[derive(Clone, PartialEq, Eq, Hash, Debug)]
struct PShred {
    is_data: bool,
    slot: u64,
    index: u64,
    last: bool,
    sidx: u64,
    data: Vec<u8>,
    sig: Vec<u8>,
    proof: Vec<Vec<u8>>,
    root: Vec<u8>,
}
fn rd_u64(b: &[u8], p: &mut usize) -> u64 {
    let v = u64::from_le_bytes(b[*p..*p + 8].try_into().unwrap());
    *p += 8;
    v
}
fn parse_shred(vs: &ValidatedShred) -> PShred {
    let b = wincode::serialize(vs.as_shred()).expect("serialize shred");
    let mut p = 0usize;
    let tag = u32::from_le_bytes(b[0..4].try_into().unwrap());
    p += 4;
    let slot = rd_u64(&b, &mut p);
    let index = rd_u64(&b, &mut p);
    let last = b[p] != 0;
    p += 1;
    let sidx = rd_u64(&b, &mut p);
    let dl = rd_u64(&b, &mut p) as usize;
    let data = b[p..p + dl].to_vec();
    p += dl;
    let sig = b[p..p + 64].to_vec();
    p += 64;
    let pl = rd_u64(&b, &mut p) as usize;
    let mut proof = Vec::new();
    for _ in 0..pl {
        proof.push(b[p..p + 32].to_vec());
        p += 32;
    }
    assert_eq!(p, b.len(), "shred wire layout");
    PShred { is_data: tag == 0, slot, index, last, sidx, data, sig, proof, root: vs.slice_root().as_ref().to_vec() }
}
fn shred_bytes(s: &PShred) -> Vec<u8> {
    let mut b = Vec::new();
    b.extend_from_slice(&(if s.is_data { 0u32 } else { 1u32 }).to_le_bytes());
    b.extend_from_slice(&s.slot.to_le_bytes());
    b.extend_from_slice(&s.index.to_le_bytes());
    b.push(s.last as u8);
    b.extend_from_slice(&s.sidx.to_le_bytes());
    b.extend_from_slice(&(s.data.len() as u64).to_le_bytes());
    b.extend_from_slice(&s.data);
    b.extend_from_slice(&s.sig);
    b.extend_from_slice(&(s.proof.len() as u64).to_le_bytes());
    for h in &s.proof {
        b.extend_from_slice(h);
    }
    b
}

/// Per-case interner of byte strings.  `get` yields a placeholder token that `Global::relocate`
/// later rewrites to the global name `hx<i>`; the definitions use the limb format (7 bytes per
/// primitive-int literal, left aligned), which Coq parses much faster than string literals.
#[derive(Default)]
struct Limbs {
    map: HashMap<Vec<u8>, usize>,
    blobs: Vec<Vec<u8>>,
}
impl Limbs {
    fn term(bytes: &[u8]) -> String {
        let mut s = format!("(unlimb {} [", bytes.len());
        for (i, ch) in bytes.chunks(7).enumerate() {
            if i > 0 {
                s.push(';');
            }
            let mut v: u64 = 0;
            for k in 0..7 {
                v = (v << 8) | (*ch.get(k).unwrap_or(&0) as u64);
            }
            s.push_str(&format!("0x{:x}", v));
        }
        s.push_str("]%uint63)");
        s
    }
    fn get(&mut self, bytes: &[u8]) -> String {
        if bytes.is_empty() {
            return "[]".to_string();
        }
        if let Some(i) = self.map.get(bytes) {
            return format!("\u{1}{}\u{2}", i);
        }
        let i = self.blobs.len();
        self.map.insert(bytes.to_vec(), i);
        self.blobs.push(bytes.to_vec());
        format!("\u{1}{}\u{2}", i)
    }
}
#[derive(Default)]
struct Global {
    map: HashMap<Vec<u8>, usize>,
    defs: Vec<String>,
}
impl Global {
    fn name(&mut self, bytes: &[u8]) -> String {
        if let Some(i) = self.map.get(bytes) {
            return format!("hx{}", i);
        }
        let i = self.defs.len();
        self.map.insert(bytes.to_vec(), i);
        self.defs.push(format!("Definition hx{} : list int := {}.", i, Limbs::term(bytes)));
        format!("hx{}", i)
    }
    fn relocate(&mut self, text: &str, blobs: &[Vec<u8>]) -> String {
        let mut out = String::with_capacity(text.len());
        let mut it = text.split('\u{1}');
        out.push_str(it.next().unwrap_or(""));
        for part in it {
            let (num, rest) = part.split_once('\u{2}').expect("placeholder terminator");
            let i: usize = num.parse().expect("placeholder index");
            out.push_str(&self.name(&blobs[i]));
            out.push_str(rest);
        }
        out
    }
}

struct Ctx {
    it: Limbs,
    sigs: HashMap<Vec<u8>, u64>,
}
impl Ctx {
    fn sig_id(&mut self, s: &[u8]) -> u64 {
        let n = self.sigs.len() as u64 + 1;
        *self.sigs.entry(s.to_vec()).or_insert(n)
    }
}

/// per-case table of distinct shreds (hash-consed on their exact bytes + cached root)
#[derive(Default)]
struct Table {
    map: HashMap<PShred, usize>,
    list: Vec<PShred>,
}
impl Table {
    fn add(&mut self, s: PShred) -> usize {
        if let Some(i) = self.map.get(&s) {
            return *i;
        }
        let i = self.list.len();
        self.map.insert(s.clone(), i);
        self.list.push(s);
        i
    }
    /// compact form when the first TOTAL_SHREDS entries are exactly `ps` and share header, signature
    /// and root, are indexed by position, data before coding, equal shard size > 0, and all proofs have
    /// length 6 and agree on every tree node they mention; the expansion in Coq is then lossless
    fn render_leader(&self, cx: &mut Ctx, ps: &[PShred]) -> Option<String> {
        if ps.len() != TOTAL_SHREDS || self.list.len() < TOTAL_SHREDS || self.list[..TOTAL_SHREDS] != *ps {
            return None;
        }
        let f = &ps[0];
        let sb = f.data.len();
        let nd = ps.iter().take_while(|s| s.is_data).count();
        if sb == 0 {
            return None;
        }
        let mut nodes: Vec<Vec<Option<Vec<u8>>>> = (0..6).map(|h| vec![None; TOTAL_SHREDS >> h]).collect();
        for (i, s) in ps.iter().enumerate() {
            if s.slot != f.slot || s.index != f.index || s.last != f.last || s.sig != f.sig || s.root != f.root
                || s.sidx != i as u64 || s.is_data != (i < nd) || s.data.len() != sb || s.proof.len() != 6 {
                return None;
            }
            for h in 0..6 {
                let j = (i >> h) ^ 1;
                match &nodes[h][j] {
                    None => nodes[h][j] = Some(s.proof[h].clone()),
                    Some(x) => {
                        if *x != s.proof[h] {
                            return None;
                        }
                    }
                }
            }
        }
        let datas: Vec<u8> = ps.iter().flat_map(|s| s.data.iter().copied()).collect();
        let mut nb: Vec<u8> = Vec::new();
        for lvl in &nodes {
            for n in lvl {
                nb.extend(n.as_ref()?);
            }
        }
        Some(format!(
            "(TLeader {} {} {} {} {} {} {} {} {} {})",
            f.slot, f.index, f.last, cx.sig_id(&f.sig), cx.it.get(&f.root), nd, sb, cx.it.get(&datas), cx.it.get(&nb),
            self.render(cx, TOTAL_SHREDS)
        ))
    }
    fn render(&self, cx: &mut Ctx, from: usize) -> String {
        let mut o = String::from("[");
        for (i, s) in self.list.iter().enumerate().skip(from) {
            if i > from {
                o.push_str("; ");
            }
            let proof: Vec<String> = s.proof.iter().map(|h| cx.it.get(h)).collect();
            o.push_str(&format!(
                "IS {} {} {} {} {} {} {} [{}] {}",
                s.is_data, s.slot, s.index, s.last, s.sidx, cx.it.get(&s.data), cx.sig_id(&s.sig), proof.join("; "), cx.it.get(&s.root)
            ));
        }
        o.push(']');
        o
    }
}

fn refs_spec(refs: &[Option<usize>]) -> String {
    if refs.len() == TOTAL_SHREDS && refs.iter().enumerate().all(|(i, r)| r.map_or(true, |x| x == i)) {
        let mut m: u64 = 0;
        for (i, r) in refs.iter().enumerate() {
            if r.is_some() {
                m |= 1 << i;
            }
        }
        format!("(AMask {})", m)
    } else {
        let v: Vec<String> = refs.iter().map(|r| match r { Some(x) => format!("Some {}", x), None => "None".into() }).collect();
        format!("(AList [{}])", v.join("; "))
    }
}
fn parent_term(cx: &mut Ctx, p: &Option<(u64, Vec<u8>)>) -> String {
    match p {
        None => "None".into(),
        Some((s, h)) => format!("(Some ({}, {}))", s, cx.it.get(h)),
    }
}
fn list_term(cx: &mut Ctx, l: &[Vec<u8>]) -> String {
    format!("[{}]", l.iter().map(|x| cx.it.get(x)).collect::<Vec<_>>().join("; "))
}

// ---- direct use of the external libraries (tables for the model; empirical premise checks) ----
fn lib_encode(nc: usize, data: &[Vec<u8>]) -> Option<Vec<Vec<u8>>> {
    let sb = data.first()?.len();
    let mut enc = ReedSolomonEncoder::new(DATA_SHREDS, nc, sb).ok()?;
    for d in data {
        enc.add_original_shard(d).ok()?;
    }
    let res = enc.encode().ok()?;
    Some(res.recovery_iter().map(|x| x.to_vec()).collect())
}
fn lib_decode(nc: usize, d_in: &[Option<Vec<u8>>], c_in: &[Option<Vec<u8>>]) -> Option<Vec<Vec<u8>>> {
    let sb = d_in.iter().chain(c_in.iter()).flatten().next()?.len();
    let mut dec = ReedSolomonDecoder::new(DATA_SHREDS, nc, sb).ok()?;
    for (i, d) in d_in.iter().enumerate() {
        if let Some(d) = d {
            dec.add_original_shard(i, d).ok()?;
        }
    }
    for (i, c) in c_in.iter().enumerate() {
        if let Some(c) = c {
            dec.add_recovery_shard(i, c).ok()?;
        }
    }
    let res = dec.decode().ok()?;
    let mut out = Vec::new();
    for (i, d) in d_in.iter().enumerate() {
        match d {
            Some(d) => out.push(d.clone()),
            None => out.push(res.restored_original(i)?.to_vec()),
        }
    }
    Some(out)
}
/// the shards `ReedSolomonCoder::deshred` would hand to the decoder for this array
fn shard_inputs(v: usize, arr: &[Option<PShred>]) -> (Vec<Option<Vec<u8>>>, Vec<Option<Vec<u8>>>) {
    let dout = data_out(v);
    let mut d_in: Vec<Option<Vec<u8>>> = arr[..dout].iter().map(|s| s.as_ref().map(|s| s.data.clone())).collect();
    d_in.resize(DATA_SHREDS, None);
    let c_in = arr[dout..].iter().map(|s| s.as_ref().map(|s| s.data.clone())).collect();
    (d_in, c_in)
}
fn decodable(arr: &[Option<PShred>]) -> bool {
    let pres: Vec<&PShred> = arr.iter().flatten().collect();
    if pres.len() < DATA_SHREDS {
        return false;
    }
    let sz = pres[0].data.len();
    sz != 0 && sz % 2 == 0 && pres.iter().all(|s| s.data.len() == sz)
}
fn apply_keystream(key: &[u8], buf: &mut [u8]) {
    let k: [u8; 16] = key.try_into().expect("16-byte key");
    let iv = Array::from([0u8; 16]);
    let mut cipher = Ctr64LE::<Aes128>::new(&Array::from(k), &iv);
    cipher.apply_keystream(buf);
}
fn sha256(b: &[u8]) -> Vec<u8> {
    alpenglow::crypto::hash(b).as_ref().to_vec()
}
fn unpad(mut b: Vec<u8>) -> Option<Vec<u8>> {
    while let Some(&0) = b.last() {
        b.pop();
    }
    if b.pop()? == 0x80 { Some(b) } else { None }
}
fn payload_bytes(parent: &Option<(u64, Vec<u8>)>, data: &[u8]) -> Vec<u8> {
    let mut b = Vec::new();
    match parent {
        None => b.push(0),
        Some((s, h)) => {
            b.push(1);
            b.extend_from_slice(&s.to_le_bytes());
            b.extend_from_slice(h);
        }
    }
    b.extend_from_slice(&(data.len() as u64).to_le_bytes());
    b.extend_from_slice(data);
    b
}
/// pad + split the way the leader is supposed to (harness-side re-implementation, used only to
/// manufacture well-formed codewords for the malicious-leader stream)
fn split_pad(input: &[u8]) -> Vec<Vec<u8>> {
    let mut b = input.to_vec();
    b.push(0x80);
    while b.len() % (2 * DATA_SHREDS) != 0 {
        b.push(0);
    }
    let sb = b.len() / DATA_SHREDS;
    b.chunks(sb).map(|c| c.to_vec()).collect()
}

struct Keys {
    sk: SecretKey,
    pk: PublicKey,
}

/// shreds signed by a (malicious) leader over arbitrary shard contents
fn custom_shreds(keys: &Keys, slot: u64, index: u64, last: bool, nd: usize, shards: &[Vec<u8>]) -> Option<Vec<ValidatedShred>> {
    let tree = SliceMerkleTree::new(shards.iter());
    let root = tree.get_root();
    let mut c = Vec::new();
    c.extend_from_slice(&slot.to_le_bytes());
    c.extend_from_slice(&index.to_le_bytes());
    c.push(last as u8);
    c.extend_from_slice(root.as_ref());
    let sig = wincode::serialize(&keys.sk.sign_bytes(&c)).unwrap();
    let mut out = Vec::new();
    for (i, d) in shards.iter().enumerate() {
        let proof: Vec<Vec<u8>> = {
            let p = tree.create_proof(i);
            let hs: &[alpenglow::crypto::Hash] = p.as_ref();
            hs.iter().map(|h| h.as_ref().to_vec()).collect()
        };
        let ps = PShred { is_data: i < nd, slot, index, last, sidx: i as u64, data: d.clone(), sig: sig.clone(), proof, root: root.as_ref().to_vec() };
        let shred = wincode::deserialize::<Shred>(&shred_bytes(&ps)).ok()?;
        out.push(ValidatedShred::try_new(shred, None, &keys.pk).ok()?);
    }
    Some(out)
}

struct SubOut {
    text: String,
    sig: String,
    nontrivial_key: String,
    /// (key, ciphertext, plaintext) the all-or-nothing shredders would decrypt for this input
    ks: Option<(Vec<u8>, Vec<u8>, Vec<u8>)>,
}

/// runs one deshred call of shredder `v` on `input` and renders the sub-case
#[allow(clippy::too_many_arguments)]
fn run_sub(cx: &mut Ctx, keys: &Keys, table: &mut Table, sid: u64, kind: u64, kind_name: &str, v: usize,
           input: &[Option<ValidatedShred>], need_lib: bool, stats: &mut Counters) -> SubOut {
    let mut arr: Arr = [const { None }; TOTAL_SHREDS];
    for (i, s) in input.iter().enumerate().take(TOTAL_SHREDS) {
        arr[i] = s.clone();
    }
    let before: Vec<Option<PShred>> = arr.iter().map(|s| s.as_ref().map(parse_shred)).collect();
    let in_refs: Vec<Option<usize>> = before.iter().map(|s| s.as_ref().map(|s| table.add(s.clone()))).collect();
    let cnt = before.iter().flatten().count();
    // what the codec answers for this input (hostile stream only; honest subsets use the leader's codeword)
    let (mut forced, mut enc, mut ks) = (None, None, None);
    if need_lib && decodable(&before) {
        let (d_in, c_in) = shard_inputs(v, &before);
        if let Some(d) = lib_decode(coding_out(v), &d_in, &c_in) {
            if let Some(c) = lib_encode(coding_out(v), &d) {
                enc = Some((coding_out(v), d.clone(), c));
            }
            if v >= 2 && d.iter().map(|x| x.len()).sum::<usize>() <= MAX_DATA_PER_SLICE + 1 {
                if let Some(inp) = unpad(d.concat()) {
                    if inp.len() >= KEY_BYTES {
                        let (c, tail) = inp.split_at(inp.len() - KEY_BYTES);
                        let key: Vec<u8> = if v == 3 { tail.to_vec() } else { tail.iter().zip(sha256(c)).map(|(a, b)| a ^ b).collect() };
                        let mut pt = c.to_vec();
                        apply_keystream(&key, &mut pt);
                        ks = Some((key, c.to_vec(), pt));
                    }
                }
            }
            forced = Some(d);
        }
    }
    let res = deshred_v(v, &mut arr);
    let after: Vec<Option<PShred>> = arr.iter().map(|s| s.as_ref().map(parse_shred)).collect();
    let out_refs: Vec<Option<usize>> = after.iter().map(|s| s.as_ref().map(|s| table.add(s.clone()))).collect();
    // ValidatedShred::try_new on every regenerated shred
    let mut valid_ok = true;
    let mut regenerated = 0u64;
    for i in 0..TOTAL_SHREDS {
        if before[i].is_none() {
            if let Some(s) = &arr[i] {
                regenerated += 1;
                match ValidatedShred::try_new(s.clone().into_shred(), None, &keys.pk) {
                    Ok(vs) => {
                        if vs.slice_root().as_ref() != s.slice_root().as_ref() {
                            valid_ok = false;
                        }
                    }
                    Err(_) => valid_ok = false,
                }
            }
        }
    }
    stats.regenerated += regenerated;
    let (impl_t, rname) = match &res {
        DRes::Ok(r) => (
            format!("(IOk {} {} {} {} {} {})", r.slot, r.index, r.last, parent_term(cx, &r.parent), cx.it.get(&r.data), cx.it.get(&r.root)),
            "ok".to_string(),
        ),
        DRes::Err(e) => (format!("(IErr {})", e), ERR_NAMES[*e as usize].to_string()),
        DRes::Panic => ("IPanic".to_string(), "panic".to_string()),
    };
    *stats.results.entry(format!("{}:{}", if kind == 0 { "honest" } else { "hostile" }, rname)).or_insert(0) += 1;
    let forced_t = match &forced { Some(d) => format!("(Some {})", list_term(cx, d)), None => "None".into() };
    let enc_t = match &enc {
        Some((nc, d, c)) => format!("(Some ({}, {}, {}))", nc, list_term(cx, d), list_term(cx, c)),
        None => "None".into(),
    };
    let text = format!(
        "Sub {} {} {} {} {} {} {} {} {}",
        sid, kind, v, refs_spec(&in_refs), forced_t, enc_t, impl_t, refs_spec(&out_refs), valid_ok
    );
    let class = if cnt == 0 { "0".to_string() } else if cnt < DATA_SHREDS { "lt32".into() } else if cnt == DATA_SHREDS { "eq32".into() } else { "gt32".into() };
    SubOut {
        sig: format!("deshred:{}:{}:{}:count-{}:{}", VNAMES[v], if kind == 0 { "honest-subset" } else { "hostile" }, kind_name, class, rname),
        nontrivial_key: format!("{}|{}|{:?}|{}", v, kind_name, in_refs, rname),
        text,
        ks,
    }
}

#[derive(Default)]
struct Counters {
    results: std::collections::BTreeMap<String, u64>,
    regenerated: u64,
    subset_sizes: std::collections::BTreeMap<usize, u64>,
    residues: HashSet<(usize, usize)>,
    shard_sizes: std::collections::BTreeMap<usize, u64>,
    mds_checks: u64,
    hostile_kinds: std::collections::BTreeMap<String, u64>,
    sweep: u64,
}

fn mask_to_input(shreds: &[ValidatedShred], m: u64) -> Vec<Option<ValidatedShred>> {
    (0..TOTAL_SHREDS).map(|i| if (m >> i) & 1 == 1 { Some(shreds[i].clone()) } else { None }).collect()
}
fn random_mask(rng: &mut Rng, k: usize) -> u64 {
    let mut idx: Vec<usize> = (0..TOTAL_SHREDS).collect();
    rng.shuffle(&mut idx);
    idx[..k].iter().fold(0u64, |m, i| m | (1u64 << i))
}
fn low_bits(k: usize) -> u64 {
    if k >= 64 { u64::MAX } else { (1u64 << k) - 1 }
}
/// structured reconstruction subsets (name, mask)
fn structured_masks(v: usize) -> Vec<(&'static str, u64)> {
    let d = data_out(v);
    vec![
        ("all", u64::MAX),
        ("none", 0),
        ("first-32", low_bits(32)),
        ("last-32", !low_bits(32)),
        ("first-31", low_bits(31)),
        ("last-31", !low_bits(33)),
        ("first-33", low_bits(33)),
        ("last-33", !low_bits(31)),
        ("all-data-shreds", low_bits(d)),
        ("all-coding-shreds", !low_bits(d)),
        ("even-positions", 0x5555_5555_5555_5555),
        ("odd-positions", 0xAAAA_AAAA_AAAA_AAAA),
        ("all-but-first", !1),
        ("all-but-last", low_bits(63)),
        ("middle-32", low_bits(32) << 16),
        ("one-shred", 1 << 40),
        ("one-data-rest-coding", 1 | !low_bits(33)),
    ]
}

struct SliceSpec {
    v: usize,
    slot: u64,
    index: u64,
    last: bool,
    parent: Option<(u64, Vec<u8>)>,
    data: Vec<u8>,
}
fn mk_slice(sp: &SliceSpec) -> Slice {
    Slice {
        slot: Slot::new(sp.slot),
        slice_index: slice_index(sp.index),
        is_last: sp.last,
        parent: sp.parent.as_ref().map(|(s, h)| (Slot::new(*s), block_hash(h))),
        data: sp.data.clone(),
    }
}
/// slice of shredder `v` whose Reed-Solomon input has exactly `rs_len` bytes (None if impossible)
fn spec_for_len(rng: &mut Rng, v: usize, with_parent: bool, rs_len: usize) -> Option<SliceSpec> {
    let hdr = 1 + if with_parent { 40 } else { 0 } + 8 + key_overhead(v);
    if rs_len < hdr {
        return None;
    }
    Some(SliceSpec {
        v,
        slot: match rng.below(4) { 0 => 0, 1 => u64::MAX, 2 => rng.next(), _ => rng.below(100_000) },
        index: match rng.below(3) { 0 => 0, 1 => 1023, _ => rng.below(1024) },
        last: rng.chance(1, 2),
        parent: if with_parent { Some((if rng.chance(1, 4) { u64::MAX } else { rng.below(1 << 40) }, rng.bytes(32))) } else { None },
        data: gen_data(rng, rs_len - hdr),
    })
}
/// payload bytes: random, or shapes that stress the padding (trailing zeros / 0x80 bytes)
fn gen_data(rng: &mut Rng, n: usize) -> Vec<u8> {
    let mut d = rng.bytes(n);
    match rng.below(6) {
        0 => { for b in d.iter_mut() { *b = 0; } }
        1 => { let k = (rng.below(70) as usize).min(n); for b in d[n - k..].iter_mut() { *b = 0; } }
        2 => { let k = (rng.below(70) as usize).min(n); for b in d[n - k..].iter_mut() { *b = 0; } if n > k { d[n - k - 1] = 0x80; } }
        3 => { if n > 0 { d[n - 1] = 0x80; } }
        _ => {}
    }
    d
}

/// one honest slice: shred, compare, reconstruct from `masks`
/// everything one case produces; merged sequentially (deterministic order) after the parallel run
#[derive(Default)]
struct CaseOut {
    text: String,
    descr: String,
    sigs: Vec<(u64, u64, String)>,
    findings: Vec<(u64, String)>,
    cnt: Counters,
    /// (distinctness key, counts as non-trivial)
    keys_nt: Vec<(String, bool)>,
    blobs: Vec<Vec<u8>>,
}

fn honest_case(keys: &Keys, id: u64, sp: &SliceSpec, masks: &[(String, u64)]) -> CaseOut {
    let mut cx_owned = Ctx { it: Limbs::default(), sigs: HashMap::new() };
    let cx = &mut cx_owned;
    let mut out = CaseOut::default();
    let stats = &mut out.cnt;
    let sigs = &mut out.sigs;
    let findings = &mut out.findings;
    let keys_nt = &mut out.keys_nt;
    let mut leader: Option<Vec<PShred>> = None;
    let v = sp.v;
    let slice = mk_slice(sp);
    let pb = payload_bytes(&sp.parent, &sp.data);
    let res = shred_v(v, &slice, &keys.sk);
    let mut table = Table::default();
    let mut key = Vec::new();
    let mut ct = Vec::new();
    let mut subs: Vec<String> = Vec::new();
    let impl_t;
    let descr;
    let head = format!(
        "C11 {} {} {} {} {} {} {}",
        id, v, sp.slot, sp.index, sp.last, parent_term(cx, &sp.parent), cx.it.get(&sp.data)
    );
    match res {
        Err(()) => {
            impl_t = "None".to_string();
            sigs.push((id, 0, format!("shred:{}:panic:len-{}", VNAMES[v], pb.len())));
            descr = format!("case {}: {} shred of {} payload bytes PANICKED", id, VNAMES[v], pb.len());
        }
        Ok(Err(ShredError::TooMuchData)) => {
            impl_t = "(Some None)".to_string();
            sigs.push((id, 0, format!("shred:{}:TooMuchData:{}", VNAMES[v], if pb.len() > max_data_size(v) { "above-limit" } else { "WITHIN-LIMIT" })));
            descr = format!("case {}: {} shred of {} payload bytes (limit {}) -> TooMuchData", id, VNAMES[v], pb.len(), max_data_size(v));
        }
        Ok(Ok(shreds)) => {
            let ps: Vec<PShred> = shreds.iter().map(parse_shred).collect();
            // wire layout self check: our re-encoding is byte-identical
            for (s, p) in shreds.iter().zip(&ps) {
                if wincode::serialize(s.as_shred()).unwrap() != shred_bytes(p) {
                    findings.push((id, "harness:shred-wire-layout-mismatch".into()));
                }
            }
            let refs: Vec<usize> = ps.iter().map(|p| table.add(p.clone())).collect();
            impl_t = format!("(Some (Some [{}]))", refs.iter().map(|r| r.to_string()).collect::<Vec<_>>().join("; "));
            let sb = ps[0].data.len();
            *stats.shard_sizes.entry(sb).or_insert(0) += 1;
            let rs_len = pb.len() + key_overhead(v);
            stats.residues.insert((v, rs_len % 64));
            // the 32 Reed-Solomon originals (for the cipher table and the empirical MDS check)
            let all: Vec<Option<PShred>> = ps.iter().cloned().map(Some).collect();
            let (d_in, c_in) = shard_inputs(v, &all);
            let d_full = lib_decode(coding_out(v), &d_in, &c_in);
            if v >= 2 {
                if let Some(inp) = d_full.as_ref().and_then(|d| unpad(d.concat())) {
                    if inp.len() >= KEY_BYTES {
                        let (c, tail) = inp.split_at(inp.len() - KEY_BYTES);
                        ct = c.to_vec();
                        key = if v == 3 { tail.to_vec() } else { tail.iter().zip(sha256(c)).map(|(a, b)| a ^ b).collect() };
                        // keystream premise check: the real cipher maps the payload to this ciphertext and back
                        let mut chk = pb.clone();
                        apply_keystream(&key, &mut chk);
                        let mut back = chk.clone();
                        apply_keystream(&key, &mut back);
                        if chk != ct || back != pb {
                            findings.push((id, format!("premise:keystream-table-mismatch:{}", VNAMES[v])));
                        }
                    }
                }
            }
            sigs.push((id, 0, format!("shred:{}:ok:shard-{}", VNAMES[v], sb)));
            for (k, (name, m)) in masks.iter().enumerate() {
                let input = mask_to_input(&shreds, *m);
                let cnt = m.count_ones() as usize;
                *stats.subset_sizes.entry(cnt).or_insert(0) += 1;
                // empirical check of the MDS premise on this subset
                if cnt >= DATA_SHREDS {
                    if let Some(d) = &d_full {
                        let masked: Vec<Option<PShred>> = (0..TOTAL_SHREDS).map(|i| if (m >> i) & 1 == 1 { Some(ps[i].clone()) } else { None }).collect();
                        let (di, ci) = shard_inputs(v, &masked);
                        stats.mds_checks += 1;
                        if lib_decode(coding_out(v), &di, &ci).as_ref() != Some(d) {
                            findings.push((id, format!("premise:mds-violated:{}:{}", VNAMES[v], name)));
                        }
                    }
                }
                let so = run_sub(cx, keys, &mut table, k as u64 + 1, 0, name, v, &input, false, stats);
                sigs.push((id, k as u64 + 1, so.sig));
                keys_nt.push((so.nontrivial_key + &format!("|{}|{}", rs_len, sp.parent.is_some()), cnt > 0));
                subs.push(so.text);
            }
            leader = Some(ps);
            descr = format!(
                "case {}: {} slice slot={} index={} last={} parent={} data={}B (rs input {}B, residue {}, shard {}B), {} reconstruction subsets",
                id, VNAMES[v], sp.slot, sp.index, sp.last, sp.parent.is_some(), sp.data.len(), rs_len, rs_len % 64, sb, masks.len()
            );
        }
    }
    let table_t = match leader.as_ref().and_then(|ps| table.render_leader(cx, ps)) {
        Some(t) => t,
        None => format!("(TExplicit {})", table.render(cx, 0)),
    };
    out.text = format!(
        "({} {} {} {} {} [{}])%N",
        head, cx.it.get(&key), cx.it.get(&ct), impl_t, table_t,
        subs.iter().map(|s| format!("({})", s)).collect::<Vec<_>>().join("; ")
    );
    out.descr = descr;
    out.blobs = std::mem::take(&mut cx_owned.it.blobs);
    out
}

/// hostile case: arbitrary arrays of validated shreds, any shredder
struct HostileSub {
    name: String,
    v: usize,
    input: Vec<Option<ValidatedShred>>,
}
fn hostile_case(keys: &Keys, id: u64, what: &str, hs: &[HostileSub]) -> CaseOut {
    let mut cx_owned = Ctx { it: Limbs::default(), sigs: HashMap::new() };
    let cx = &mut cx_owned;
    let mut out = CaseOut::default();
    let stats = &mut out.cnt;
    let sigs = &mut out.sigs;
    let mut table = Table::default();
    let mut subs = Vec::new();
    let mut kss: Vec<String> = Vec::new();
    for (k, h) in hs.iter().enumerate() {
        *stats.hostile_kinds.entry(what.to_string()).or_insert(0) += 1;
        let so = run_sub(cx, keys, &mut table, k as u64, 1, &h.name, h.v, &h.input, true, stats);
        if let Some((key, c, pt)) = &so.ks {
            let e = format!("({}, {}, {})", cx.it.get(key), cx.it.get(c), cx.it.get(pt));
            if !kss.contains(&e) {
                kss.push(e);
            }
        }
        sigs.push((id, k as u64, so.sig));
        out.keys_nt.push((so.nontrivial_key + what + &id.to_string(), true));
        subs.push(so.text);
    }
    out.text = format!("(C11H {} [{}] {} [{}])%N", id, kss.join("; "), table.render(cx, 0), subs.iter().map(|s| format!("({})", s)).collect::<Vec<_>>().join("; "));
    out.descr = format!("case {}: hostile stream, {} ({} deshred calls)", id, what, hs.len());
    out.blobs = std::mem::take(&mut cx_owned.it.blobs);
    out
}

impl Counters {
    fn merge(&mut self, o: Counters) {
        for (k, v) in o.results { *self.results.entry(k).or_insert(0) += v; }
        for (k, v) in o.subset_sizes { *self.subset_sizes.entry(k).or_insert(0) += v; }
        for (k, v) in o.shard_sizes { *self.shard_sizes.entry(k).or_insert(0) += v; }
        for (k, v) in o.hostile_kinds { *self.hostile_kinds.entry(k).or_insert(0) += v; }
        self.residues.extend(o.residues);
        self.regenerated += o.regenerated;
        self.mds_checks += o.mds_checks;
        self.sweep += o.sweep;
    }
}

/// runs `f` on every task with a small pool of threads; results in task order
fn run_parallel<T: Sync, R: Send>(tasks: &[T], f: impl Fn(usize, &T) -> R + Sync) -> Vec<R> {
    use std::sync::atomic::{AtomicUsize, Ordering};
    let next = AtomicUsize::new(0);
    let workers = 6usize.min(tasks.len().max(1));
    let mut parts: Vec<Vec<(usize, R)>> = Vec::new();
    std::thread::scope(|sc| {
        let hs: Vec<_> = (0..workers)
            .map(|_| {
                sc.spawn(|| {
                    let mut mine = Vec::new();
                    loop {
                        let i = next.fetch_add(1, Ordering::Relaxed);
                        if i >= tasks.len() {
                            break;
                        }
                        mine.push((i, f(i, &tasks[i])));
                    }
                    mine
                })
            })
            .collect();
        for h in hs {
            parts.push(h.join().expect("worker thread"));
        }
    });
    let mut all: Vec<(usize, R)> = parts.into_iter().flatten().collect();
    all.sort_by_key(|x| x.0);
    all.into_iter().map(|x| x.1).collect()
}

fn full(shreds: &[ValidatedShred]) -> Vec<Option<ValidatedShred>> {
    shreds.iter().cloned().map(Some).collect()
}
fn masked(shreds: &[ValidatedShred], m: u64) -> Vec<Option<ValidatedShred>> {
    mask_to_input(shreds, m)
}

/// shreds of a (malicious) leader for shredder `v` whose Reed-Solomon originals are `d`
/// (coding shards honest unless `tamper`), i.e. what `v`'s receiver would be handed
fn leader_from_originals(keys: &Keys, v: usize, d: &[Vec<u8>], tamper: Option<(usize, usize)>) -> Option<Vec<ValidatedShred>> {
    let mut c = lib_encode(coding_out(v), d)?;
    if let Some((i, j)) = tamper {
        let i = i % c.len();
        let l = c[i].len();
        c[i][j % l] ^= 0xFF;
    }
    let mut shards: Vec<Vec<u8>> = d[..data_out(v)].to_vec();
    shards.extend(c);
    custom_shreds(keys, 7, 3, true, data_out(v), &shards)
}

pub fn gen_c11(seed: u64, tier: Tier) -> CaseSet {
    let t0 = std::time::Instant::now();
    let mut rng = Rng::new(seed ^ 0xC11);
    let keys = {
        let sk = SecretKey::new(&mut rand::rng());
        let pk = sk.to_pk();
        Keys { sk, pk }
    };
    let mut global = Global::default();
    let mut honest_tasks: Vec<(SliceSpec, Vec<(String, u64)>)> = Vec::new();
    let mut hostile_tasks: Vec<(String, Vec<HostileSub>)> = Vec::new();
    let mut cases: Vec<String> = Vec::new();
    let mut descr: Vec<String> = Vec::new();
    let mut sigs: Vec<(u64, u64, String)> = Vec::new();
    let mut stats = Stats::default();
    let mut cnt = Counters::default();
    let mut findings: Vec<(u64, String)> = Vec::new();
    let mut seen: HashSet<String> = HashSet::new();
    let mut nontrivial = 0u64;
    let thorough = tier == Tier::Thorough;

    // ---------- 1. honest slices: every residue of the padding scheme x size classes x shredders ----------
    // size classes by the derived shard size: tiny (2..4), below / at / above the 64-byte pivot of
    // next_multiple_of, larger
    let mut lens: Vec<(usize, usize, bool)> = Vec::new(); // (variant, rs input length, parent)
    for r in 0..64usize {
        for v in 0..4usize {
            // tiny: the first length with this residue the shredder can produce at all
            let with_parent = (r + v) % 2 == 1;
            let min = 1 + if with_parent { 40 } else { 0 } + 8 + key_overhead(v);
            let l = min + (r + 64 - min % 64) % 64;
            lens.push((v, l, with_parent));
        }
        let classes: &[usize] = if thorough { &[5, 16, 30, 31, 32, 33, 47, 100, 257] } else { &[30, 31, 32] };
        for (k, q) in classes.iter().enumerate() {
            // q*64 + r: shard sizes 2*(q+1); 31 -> 64 bytes exactly, 32 -> 66 bytes
            lens.push(((r + k) % 4, q * 64 + r, (r / 4 + k) % 2 == 0));
            if thorough {
                lens.push(((r + k + 2) % 4, q * 64 + r, (r / 4 + k) % 2 == 1));
            }
        }
    }
    let struct_n = 17usize;
    let mut size_rr = 0usize;
    let mut struct_rr = 0usize;
    let mut next_masks = |rng: &mut Rng, v: usize, n_struct: usize, n_rand: usize| -> Vec<(String, u64)> {
        let sm = structured_masks(v);
        let mut out: Vec<(String, u64)> = Vec::new();
        for _ in 0..n_struct {
            let (n, m) = sm[struct_rr % struct_n];
            struct_rr += 1;
            out.push((n.to_string(), m));
        }
        for _ in 0..n_rand {
            // every subset size 0..=64 in turn, extra weight on 31 / 32 / 33
            let k = if size_rr % 5 == 4 { 31 + (size_rr / 5) % 3 } else { (size_rr - size_rr / 5) % 65 };
            size_rr += 1;
            out.push((format!("random-{}", k), random_mask(rng, k)));
        }
        out
    };
    for (v, l, wp) in lens {
        if let Some(sp) = spec_for_len(&mut rng, v, wp, l) {
            let masks = if thorough { next_masks(&mut rng, v, 3, 3) } else { next_masks(&mut rng, v, 2, 2) };
            honest_tasks.push((sp, masks));
        }
    }
    if std::env::var("AGVERIF_DEBUG").is_ok() { eprintln!("[c11] part1 done {:?}", t0.elapsed()); }
    // ---------- 2. extremes: empty payload, maximum payload, one byte above, with / without parent ----------
    for v in 0..4usize {
        for wp in [false, true] {
            let hdr = 1 + if wp { 40 } else { 0 } + 8;
            let max_data = max_data_size(v) - hdr;
            let mut sizes = vec![0usize, max_data + 1];
            if wp == (v % 2 == 0) || thorough {
                sizes.push(max_data);
            }
            if thorough {
                sizes.push(max_data - 1);
                sizes.push(max_data - 63);
                sizes.push(max_data + 2);
            }
            for dl in sizes {
                let sp = SliceSpec {
                    v,
                    slot: rng.below(1000),
                    index: rng.below(1024),
                    last: rng.chance(1, 2),
                    parent: if wp { Some((rng.below(1000), rng.bytes(32))) } else { None },
                    data: gen_data(&mut rng, dl),
                };
                let big = dl >= max_data.saturating_sub(64);
                let masks = if big { next_masks(&mut rng, v, 2, if thorough { 4 } else { 2 }) } else { next_masks(&mut rng, v, 17, 8) };
                honest_tasks.push((sp, masks));
            }
        }
    }
    // a few random mid-size slices with every subset size once (thorough: more)
    for k in 0..(if thorough { 16 } else { 4 }) {
        let v = k % 4;
        let l = 200 + rng.below(if thorough { 8000 } else { 1500 }) as usize;
        if let Some(sp) = spec_for_len(&mut rng, v, k % 3 == 0, l) {
            let masks: Vec<(String, u64)> = (0..=64usize).map(|s| (format!("random-{}", s), random_mask(&mut rng, s))).collect();
            honest_tasks.push((sp, masks));
        }
    }
    // run them (each case is independent; ids = task order)
    let mut merge = |o: CaseOut, cases: &mut Vec<String>, descr: &mut Vec<String>, sigs: &mut Vec<(u64, u64, String)>,
                     findings: &mut Vec<(u64, String)>, cnt: &mut Counters, seen: &mut HashSet<String>, nontrivial: &mut u64,
                     global: &mut Global| {
        cases.push(global.relocate(&o.text, &o.blobs));
        descr.push(o.descr);
        sigs.extend(o.sigs);
        findings.extend(o.findings);
        cnt.merge(o.cnt);
        for (k, nt) in o.keys_nt {
            if seen.insert(k) && nt {
                *nontrivial += 1;
            }
        }
    };
    let outs = run_parallel(&honest_tasks, |i, (sp, masks)| honest_case(&keys, i as u64, sp, masks));
    for o in outs {
        if stats.samples.len() < 2 {
            stats.samples.push(format!("{} :: {}", o.descr, o.text.chars().filter(|c| *c != '\u{1}' && *c != '\u{2}').take(300).collect::<String>()));
        }
        merge(o, &mut cases, &mut descr, &mut sigs, &mut findings, &mut cnt, &mut seen, &mut nontrivial, &mut global);
    }

    if std::env::var("AGVERIF_DEBUG").is_ok() { eprintln!("[c11] part2 done {:?}", t0.elapsed()); }
    // ---------- 3. hostile stream ----------
    let reps = if thorough { 3 } else { 1 };
    for rep in 0..reps {
        // honest material of each shredder (same slice, same size)
        let l = 300 + 64 * rep + rng.below(64) as usize;
        let mut mats: Vec<Vec<ValidatedShred>> = Vec::new();
        for v in 0..4usize {
            let sp = spec_for_len(&mut rng, v, false, l).unwrap();
            mats.push(shred_v(v, &mk_slice(&sp), &keys.sk).unwrap().unwrap());
        }
        // (a) another shredder's shreds
        for from in 0..4usize {
            let mut hs = Vec::new();
            for to in 0..4usize {
                if to == from {
                    continue;
                }
                for (n, m) in [("all", u64::MAX), ("first-32", low_bits(32)), ("last-32", !low_bits(32)), ("without-31", !(1u64 << 31)), ("first-31-last-2", low_bits(31) | (3u64 << 62))] {
                    hs.push(HostileSub { name: format!("{}-shreds-to-{}:{}", VNAMES[from], VNAMES[to], n), v: to, input: masked(&mats[from], m) });
                }
            }
            hostile_tasks.push(("other-shredder".to_string(), hs));
        }
        // (b) mixed slices: one shred of a different slice (same size / different size), misplaced shreds
        for v in 0..4usize {
            let sp_same = spec_for_len(&mut rng, v, false, l).unwrap();
            let other_same = shred_v(v, &mk_slice(&sp_same), &keys.sk).unwrap().unwrap();
            let sp_diff = spec_for_len(&mut rng, v, false, l + 128).unwrap();
            let other_diff = shred_v(v, &mk_slice(&sp_diff), &keys.sk).unwrap().unwrap();
            let mut hs = Vec::new();
            for (n, pos, m) in [("first", 0usize, u64::MAX), ("first-of-33", 0, low_bits(33)), ("last", 63, u64::MAX), ("mid-of-last-40", 40, !low_bits(24)), ("only-foreign-among-20", 5, low_bits(20))] {
                let mut a = masked(&mats[v], m);
                a[pos] = Some(other_same[pos].clone());
                hs.push(HostileSub { name: format!("foreign-same-size:{}", n), v, input: a });
                let mut a = masked(&mats[v], m);
                a[pos] = Some(other_diff[pos].clone());
                hs.push(HostileSub { name: format!("foreign-other-size:{}", n), v, input: a });
            }
            if v < 2 {
                // same payload under another header (deterministic shredders give identical shards and
                // root): deshred takes header and signature from the first shred it finds
                let sp_a = spec_for_len(&mut rng, v, false, l).unwrap();
                let sp_b = SliceSpec { v, slot: sp_a.slot ^ 1, index: (sp_a.index + 1) % 1024, last: !sp_a.last, parent: sp_a.parent.clone(), data: sp_a.data.clone() };
                let sa = shred_v(v, &mk_slice(&sp_a), &keys.sk).unwrap().unwrap();
                let sb_ = shred_v(v, &mk_slice(&sp_b), &keys.sk).unwrap().unwrap();
                for (n, pos, m) in [("first", 0usize, low_bits(40)), ("later", 20, low_bits(40)), ("first-of-32", 32, !low_bits(32))] {
                    let mut a = masked(&sa, m);
                    a[pos] = Some(sb_[pos].clone());
                    hs.push(HostileSub { name: format!("same-payload-other-header:{}", n), v, input: a });
                }
            }
            // misplaced: shred i stored at position j (documented panic), also behind a layout error
            let mut a = full(&mats[v]);
            a[5] = Some(mats[v][6].clone());
            hs.push(HostileSub { name: "misplaced:5<-6".into(), v, input: a });
            let mut a = masked(&mats[v], low_bits(10));
            a[40] = Some(mats[v][41].clone());
            hs.push(HostileSub { name: "misplaced:40<-41:few".into(), v, input: a });
            let mut a = full(&mats[v]);
            a[2] = Some(other_diff[2].clone());
            a[5] = Some(mats[v][6].clone());
            hs.push(HostileSub { name: "misplaced-behind-size-mismatch".into(), v, input: a });
            let mut a = full(&mats[v]);
            a[0] = Some(mats[(v + 1) % 4][if v == 0 { 63 } else { 0 }].clone());
            a[50] = Some(mats[v][51].clone());
            hs.push(HostileSub { name: "misplaced-behind-other-shredder-shred".into(), v, input: a });
            hostile_tasks.push(("mixed-slices-and-misplaced".to_string(), hs));
        }
        // (c) malicious leader: shard sizes the codec cannot take, oversize shards
        for v in 0..4usize {
            let mut hs = Vec::new();
            for sz in [0usize, 1, 3, 7, 1023, 1025] {
                if thorough || sz < 1000 || v == 0 {
                    let shards: Vec<Vec<u8>> = (0..TOTAL_SHREDS).map(|_| rng.bytes(sz)).collect();
                    if let Some(s) = custom_shreds(&keys, 7, 3, true, data_out(v), &shards) {
                        hs.push(HostileSub { name: format!("shard-size-{}:all", sz), v, input: full(&s) });
                        hs.push(HostileSub { name: format!("shard-size-{}:first-32", sz), v, input: masked(&s, low_bits(32)) });
                        hs.push(HostileSub { name: format!("shard-size-{}:five", sz), v, input: masked(&s, 0b11111 << 30) });
                    }
                }
            }
            for sz in [1026usize, 2048] {
                if sz == 1026 || thorough {
                    let d: Vec<Vec<u8>> = (0..DATA_SHREDS).map(|_| rng.bytes(sz)).collect();
                    if let Some(s) = leader_from_originals(&keys, v, &d, None) {
                        hs.push(HostileSub { name: format!("oversize-{}:all", sz), v, input: full(&s) });
                        hs.push(HostileSub { name: format!("oversize-{}:last-32", sz), v, input: masked(&s, !low_bits(32)) });
                        hs.push(HostileSub { name: format!("oversize-{}:random-33", sz), v, input: masked(&s, random_mask(&mut rng, 33)) });
                        hs.push(HostileSub { name: format!("oversize-{}:random-31", sz), v, input: masked(&s, random_mask(&mut rng, 31)) });
                    }
                }
            }
            hostile_tasks.push(("malicious-leader-shard-sizes".to_string(), hs));
        }
        // (d) malicious leader: well-formed codeword over a bad padding / undecodable payload
        for v in 0..4usize {
            let mut hs = Vec::new();
            // padding: raw 32 originals without a valid marker
            let sb = 2 * (1 + rng.below(6) as usize);
            let mut bufs: Vec<(String, Vec<u8>)> = Vec::new();
            bufs.push(("all-zero".into(), vec![0u8; DATA_SHREDS * sb]));
            for last in [0x01u8, 0x81, 0x40, 0xff, 0x7f] {
                let mut b = rng.bytes(DATA_SHREDS * sb);
                let z = rng.below(sb as u64) as usize;
                let n = b.len();
                for x in b[n - z..].iter_mut() { *x = 0; }
                b[n - z - 1] = last;
                bufs.push((format!("last-nonzero-{:02x}-then-{}-zeros", last, z), b));
            }
            {
                // marker in the very first byte: empty payload
                let mut b = vec![0u8; DATA_SHREDS * sb];
                b[0] = 0x80;
                bufs.push(("marker-first-byte-empty-payload".into(), b));
                // no padding room at all: marker is the last byte
                let mut b = rng.bytes(DATA_SHREDS * sb);
                let n = b.len();
                b[n - 1] = 0x80;
                bufs.push(("marker-last-byte".into(), b));
            }
            for (n, b) in bufs {
                let d: Vec<Vec<u8>> = b.chunks(sb).map(|c| c.to_vec()).collect();
                if let Some(s) = leader_from_originals(&keys, v, &d, None) {
                    hs.push(HostileSub { name: format!("padding:{}:all", n), v, input: full(&s) });
                    hs.push(HostileSub { name: format!("padding:{}:last-32", n), v, input: masked(&s, !low_bits(32)) });
                }
            }
            // payloads (after removing the padding / the key material)
            let mut pls: Vec<(String, Vec<u8>)> = Vec::new();
            pls.push(("empty".into(), vec![]));
            pls.push(("tag-2".into(), { let mut p = payload_bytes(&None, &rng.bytes(20)); p[0] = 2; p }));
            pls.push(("tag-255".into(), { let mut p = payload_bytes(&None, &rng.bytes(20)); p[0] = 255; p }));
            pls.push(("length-prefix-cut".into(), vec![0, 1, 2, 3, 4, 5, 6, 7]));
            pls.push(("parent-cut".into(), { let mut p = vec![1u8]; p.extend(rng.bytes(39)); p }));
            pls.push(("parent-without-length".into(), { let mut p = vec![1u8]; p.extend(rng.bytes(44)); p }));
            pls.push(("data-shorter-than-prefix".into(), { let mut p = payload_bytes(&None, &rng.bytes(20)); p.truncate(25); p }));
            pls.push(("trailing-byte".into(), { let mut p = payload_bytes(&None, &rng.bytes(20)); p.push(0xAA); p }));
            pls.push(("trailing-zero-bytes".into(), { let mut p = payload_bytes(&None, &rng.bytes(20)); p.extend([0, 0, 0]); p }));
            pls.push(("length-u64-max".into(), { let mut p = payload_bytes(&None, &[]); p[1..9].copy_from_slice(&u64::MAX.to_le_bytes()); p }));
            pls.push(("length-2-pow-32".into(), { let mut p = payload_bytes(&None, &rng.bytes(5)); p[1..9].copy_from_slice(&(1u64 << 32).to_le_bytes()); p }));
            pls.push(("well-formed-no-parent".into(), payload_bytes(&None, &rng.bytes(33))));
            pls.push(("well-formed-parent".into(), payload_bytes(&Some((9, rng.bytes(32))), &rng.bytes(70))));
            pls.push(("well-formed-data-ends-in-zeros".into(), payload_bytes(&None, &{ let mut d = rng.bytes(40); d.extend([0u8; 9]); d })));
            pls.push(("well-formed-data-ends-in-80-00".into(), payload_bytes(&None, &{ let mut d = rng.bytes(40); d.extend([0x80, 0, 0]); d })));
            for (n, pl) in pls {
                let inputs: Vec<(String, Vec<u8>)> = if v < 2 {
                    vec![(n, pl)]
                } else {
                    // the all-or-nothing shredders: encrypt under a known key and append the key material
                    let key = rng.bytes(KEY_BYTES);
                    let mut c = pl.clone();
                    apply_keystream(&key, &mut c);
                    let mut with_key = c.clone();
                    if v == 3 {
                        with_key.extend(&key);
                    } else {
                        with_key.extend(key.iter().zip(sha256(&c)).map(|(a, b)| a ^ b));
                    }
                    vec![(n, with_key)]
                };
                for (n, inp) in inputs {
                    if let Some(s) = leader_from_originals(&keys, v, &split_pad(&inp), None) {
                        hs.push(HostileSub { name: format!("payload:{}:all", n), v, input: full(&s) });
                        hs.push(HostileSub { name: format!("payload:{}:random-32", n), v, input: masked(&s, random_mask(&mut rng, 32)) });
                    }
                }
            }
            if v >= 2 {
                for n in [0usize, 1, 15, 16, 17] {
                    if let Some(s) = leader_from_originals(&keys, v, &split_pad(&rng.bytes(n)), None) {
                        hs.push(HostileSub { name: format!("shorter-than-key:{}-bytes:all", n), v, input: full(&s) });
                        hs.push(HostileSub { name: format!("shorter-than-key:{}-bytes:last-32", n), v, input: masked(&s, !low_bits(32)) });
                    }
                }
            }
            hostile_tasks.push(("malicious-leader-padding-and-payload".to_string(), hs));
        }
        // (e) malicious leader: coding shards that do not belong to the data
        for v in 0..4usize {
            let mut hs = Vec::new();
            let n_inp = 100 + rng.below(200) as usize;
            let inp = payload_bytes(&None, &rng.bytes(n_inp));
            let inp = if v >= 2 { let mut x = inp; x.extend(rng.bytes(KEY_BYTES)); x } else { inp };
            let d = split_pad(&inp);
            let ti = rng.below(coding_out(v) as u64) as usize;
            if let Some(s) = leader_from_originals(&keys, v, &d, Some((ti, rng.next() as usize))) {
                let tpos = data_out(v) + ti;
                hs.push(HostileSub { name: "tampered-coding:all".into(), v, input: full(&s) });
                hs.push(HostileSub { name: "tampered-coding:first-32".into(), v, input: masked(&s, low_bits(32)) });
                hs.push(HostileSub { name: "tampered-coding:last-32".into(), v, input: masked(&s, !low_bits(32)) });
                hs.push(HostileSub { name: "tampered-coding:tampered-plus-31-data".into(), v, input: masked(&s, (low_bits(31) & !(1u64 << tpos)) | (1u64 << tpos) | (1u64 << 63)) });
                hs.push(HostileSub { name: "tampered-coding:without-tampered".into(), v, input: masked(&s, !(1u64 << tpos)) });
                for k in [32usize, 33, 40] {
                    hs.push(HostileSub { name: format!("tampered-coding:random-{}", k), v, input: masked(&s, random_mask(&mut rng, k) | (1u64 << tpos)) });
                }
                hs.push(HostileSub { name: "tampered-coding:random-20".into(), v, input: masked(&s, random_mask(&mut rng, 20)) });
            }
            hs.push(HostileSub { name: "empty-array".into(), v, input: vec![None; TOTAL_SHREDS] });
            hostile_tasks.push(("malicious-leader-inconsistent-coding".to_string(), hs));
        }
    }

    let base = cases.len();
    let outs = run_parallel(&hostile_tasks, |i, (what, hs)| hostile_case(&keys, (base + i) as u64, what, hs));
    for o in outs {
        merge(o, &mut cases, &mut descr, &mut sigs, &mut findings, &mut cnt, &mut seen, &mut nontrivial, &mut global);
    }
    if std::env::var("AGVERIF_DEBUG").is_ok() { eprintln!("[c11] part3 done {:?}", t0.elapsed()); }
    // ---------- 4. payload-length sweep (sizing + round trip judged on the spot) ----------
    let mut sweep: Vec<(usize, bool, usize)> = Vec::new(); // (variant, parent, data length)
    for v in 0..4usize {
        let hdr0 = 9 + key_overhead(v);
        let top = MAX_DATA_PER_SLICE - hdr0; // largest data length without parent
        if thorough {
            for dl in 0..=top + 3 {
                sweep.push((v, dl % 7 == 3, dl));
            }
        } else {
            for dl in 0..=2200usize {
                if dl <= 700 || dl % 3 == v % 3 || (1900..=2150).contains(&dl) {
                    sweep.push((v, dl % 5 == 2, dl));
                }
            }
            for dl in (top - 70)..=(top + 3) {
                sweep.push((v, false, dl));
                if dl >= 40 {
                    sweep.push((v, true, dl - 40));
                }
            }
            for _ in 0..150 {
                sweep.push((v, rng.chance(1, 3), rng.range(2200, top as u64 - 200) as usize));
            }
        }
    }
    let base = cases.len();
    let sweep_out = run_parallel(&sweep, |i, &(v, wp, dl)| {
        let id = (base + i) as u64;
        let mut rng = Rng::new(seed ^ 0x5EE9 ^ (id.wrapping_mul(0x9E37_79B9_7F4A_7C15)));
        let sp = SliceSpec { v, slot: rng.below(1 << 20), index: rng.below(1024), last: dl % 2 == 0,
                             parent: if wp { Some((rng.below(1 << 20), rng.bytes(32))) } else { None }, data: rng.bytes(dl) };
        let slice = mk_slice(&sp);
        match shred_v(v, &slice, &keys.sk) {
            Err(()) => (0u64, false),
            Ok(Err(_)) => (1, false),
            Ok(Ok(shreds)) => {
                let sb = shreds[0].payload_data_len();
                let extra = (rng.below(3) as usize) * (rng.below(16) as usize);
                let m = random_mask(&mut rng, DATA_SHREDS + extra);
                let mut arr: Arr = [const { None }; TOTAL_SHREDS];
                for i in 0..TOTAL_SHREDS {
                    if (m >> i) & 1 == 1 {
                        arr[i] = Some(shreds[i].clone());
                    }
                }
                let ok = match deshred_v(v, &mut arr) {
                    DRes::Ok(r) => {
                        r.slot == sp.slot && r.index == sp.index && r.last == sp.last && r.parent == sp.parent && r.data == sp.data
                            && r.root == shreds[0].slice_root().as_ref()
                            && (0..TOTAL_SHREDS).all(|i| arr[i].as_ref().map(|s| wincode::serialize(s.as_shred()).unwrap())
                                   == Some(wincode::serialize(shreds[i].as_shred()).unwrap()))
                            && { let i = (id as usize * 7) % TOTAL_SHREDS; ValidatedShred::try_new(arr[i].clone().unwrap().into_shred(), None, &keys.pk).is_ok() }
                    }
                    _ => false,
                };
                (2 + sb as u64, ok)
            }
        }
    });
    // one case per Reed-Solomon input length: the model's sizing is evaluated once per length
    let mut by_len: std::collections::BTreeMap<usize, Vec<(usize, bool, usize, u64, bool)>> = std::collections::BTreeMap::new();
    for (&(v, wp, dl), (code, ok)) in sweep.iter().zip(sweep_out) {
        cnt.sweep += 1;
        let len = 9 + if wp { 40 } else { 0 } + dl + key_overhead(v);
        by_len.entry(len).or_default().push((v, wp, dl, code, ok));
        if seen.insert(format!("sweep|{}|{}|{}", v, wp, dl)) && code >= 2 {
            nontrivial += 1;
        }
    }
    for (len, es) in by_len {
        let id = cases.len() as u64;
        let mut ts = Vec::new();
        for (k, (v, wp, dl, code, ok)) in es.iter().enumerate() {
            let fits = 9 + if *wp { 40 } else { 0 } + dl <= max_data_size(*v);
            sigs.push((id, k as u64, format!("sweep:{}:{}:{}", VNAMES[*v], if fits { "within-limit" } else { "above-limit" },
                                             match code { 0 => "panic".to_string(), 1 => "TooMuchData".to_string(), _ => format!("ok-roundtrip-{}", ok) })));
            ts.push(format!("({}, {}, {}, {}, {})", v, wp, dl, code, ok));
        }
        cases.push(format!("(C11Sizes {} {} [{}])%N", id, len, ts.join("; ")));
        descr.push(format!("case {}: sweep, Reed-Solomon input of {} bytes: {} slices (shredder, parent, data length, code, round trip): {}", id, len, es.len(), ts.join(" ")));
    }

    if std::env::var("AGVERIF_DEBUG").is_ok() { eprintln!("[c11] part4 done {:?}", t0.elapsed()); }
    stats.evaluations = cnt.results.values().sum::<u64>() + cnt.sweep + (honest_tasks.len() + hostile_tasks.len()) as u64;
    stats.distinct_nontrivial = nontrivial;
    stats.rule = "honest slices: every residue mod 64 of the Reed-Solomon input for each of the four shredders at the smallest producible size, plus residues x shard-size classes around the 64-byte pivot of next_multiple_of (62/64/66 bytes; thorough: 12..516 bytes), with/without parent, payload shapes that end in zeros / 0x80; extremes (empty, maximum, maximum+1 payload); reconstruction subsets: 17 structured masks (all, none, first/last 31/32/33, all-data, all-coding, alternating, ...) in rotation and random subsets of every size 0..64 in rotation with extra weight on 31/32/33; hostile stream: another shredder's shreds, foreign shreds of equal / different size, misplaced shreds, malicious leader (zero/odd/oversize shards, broken padding, undecodable payloads, payload shorter than the key, inconsistent coding shards); payload-length sweep with an on-the-spot round trip (quick: every length 0..=700 and 1900..=2150, every third up to 2200, the top 70 lengths and 150 random lengths per shredder; thorough: every length 0..=max+3). A case is non-trivial when at least one shred is supplied / a shard size is produced; distinct by (shredder, subset, length, outcome).".to_string();
    stats.distribution.push(("deshred_results".into(), cnt.results.iter().map(|(k, v)| format!("{}={}", k, v)).collect::<Vec<_>>().join(", ")));
    stats.distribution.push(("subset_sizes_honest".into(), cnt.subset_sizes.iter().map(|(k, v)| format!("{}:{}", k, v)).collect::<Vec<_>>().join(" ")));
    stats.distribution.push(("residues_covered(variant x residue)".into(), format!("{} of 256", cnt.residues.len())));
    stats.distribution.push(("shard_sizes".into(), cnt.shard_sizes.iter().map(|(k, v)| format!("{}:{}", k, v)).collect::<Vec<_>>().join(" ")));
    stats.distribution.push(("hostile_kinds".into(), cnt.hostile_kinds.iter().map(|(k, v)| format!("{}={}", k, v)).collect::<Vec<_>>().join(", ")));
    stats.distribution.push(("regenerated_shreds_validated_by_try_new".into(), cnt.regenerated.to_string()));
    stats.distribution.push(("empirical_mds_checks(reed-solomon-simd decodes the subset to the leader's originals)".into(), cnt.mds_checks.to_string()));
    stats.distribution.push(("sweep_lengths".into(), cnt.sweep.to_string()));
    // instance-history independence (deterministic, sequential)
    {
        let sk = SecretKey::new(&mut rand::rng());
        let rounds = if matches!(tier, Tier::Quick) { 24 } else { 200 };
        let mut total = 0u64;
        let mut fs: Vec<String> = Vec::new();
        let (c, f) = reuse_sequence::<RegularShredder>("Regular", RegularShredder::MAX_DATA_SIZE, seed, &sk, rounds); total += c; fs.extend(f);
        let (c, f) = reuse_sequence::<CodingOnlyShredder>("CodingOnly", CodingOnlyShredder::MAX_DATA_SIZE, seed, &sk, rounds); total += c; fs.extend(f);
        let (c, f) = reuse_sequence::<AontShredder>("Aont", AontShredder::MAX_DATA_SIZE, seed, &sk, rounds); total += c; fs.extend(f);
        let (c, f) = reuse_sequence::<PetsShredder>("Pets", PetsShredder::MAX_DATA_SIZE, seed, &sk, rounds); total += c; fs.extend(f);
        stats.distribution.push(("reused_instance_calls_compared_with_fresh_instance".into(), total.to_string()));
        for f in fs { findings.push((0, f)); }
    }
    stats.harness_findings = findings;
    CaseSet {
        header: "From Coq Require Import Uint63.\nFrom AG Require Import Model.Shredder Oracle.C11.\n".to_string(),
        runner: "c11_run".to_string(),
        defs: global.defs,
        cases,
        descr,
        sigs,
        stats,
    }
}

trait PayloadLen {
    fn payload_data_len(&self) -> usize;
}
impl PayloadLen for ValidatedShred {
    fn payload_data_len(&self) -> usize {
        parse_shred(self).data.len()
    }
}
