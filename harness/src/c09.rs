//! C09: vote / certificate validation.  Builds valid messages and the full mutation catalogue with
//! real BLS signatures (forged combinations are assembled by transplanting real signatures between
//! votes on the wire level), runs ValidatedVote/ValidatedCert::try_new, and renders the cases in the
//! ideal-signature vocabulary of Model/Validate.v.
use std::collections::HashSet;
use std::panic::{AssertUnwindSafe, catch_unwind};

use alpenglow::consensus::{
    Cert, FastFinalCert, FinalCert, FinalVote, NotarCert, NotarFallbackCert, NotarFallbackVote, NotarVote,
    SkipCert, SkipFallbackVote, SkipVote, ValidatedCert, ValidatedVote, Vote,
};
use alpenglow::types::Slot;
use alpenglow::{Stake, ValidatorIndex, ValidatorInfo};

use crate::coqfmt as cf;
use crate::pool::{Keys, hash_of};
use crate::poolgen::{KeyRing, stake_family};
use crate::rng::Rng;
use crate::{CaseSet, Stats, Tier};

#[derive(Clone, Copy, Debug, PartialEq, Eq)]
pub struct Payload { pub kind: u64, pub slot: u64, pub hash: u64 }

#[derive(Clone, Copy, Debug)]
pub struct Atom { pub claimed: u64, pub key: u64, pub payload: Payload }

fn sig_bytes(keys: &Keys, key: u64, p: Payload) -> Vec<u8> {
    let sk = &keys.sks[key as usize];
    let s = Slot::new(p.slot);
    let v = ValidatorIndex::new(0);
    match p.kind {
        0 => wincode::serialize(&NotarVote::new(s, hash_of(p.hash), sk, v)).unwrap()[40..136].to_vec(),
        1 => wincode::serialize(&NotarFallbackVote::new(s, hash_of(p.hash), sk, v)).unwrap()[40..136].to_vec(),
        2 => wincode::serialize(&SkipVote::new(s, sk, v)).unwrap()[8..104].to_vec(),
        3 => wincode::serialize(&SkipFallbackVote::new(s, sk, v)).unwrap()[8..104].to_vec(),
        _ => wincode::serialize(&FinalVote::new(s, sk, v)).unwrap()[8..104].to_vec(),
    }
}

/// bytes of a vote struct of the given kind with the given fields and a transplanted signature
fn vote_struct_bytes(kind: u64, slot: u64, hash: u64, claimed: u64, sig: &[u8]) -> Vec<u8> {
    let mut b = Vec::new();
    b.extend_from_slice(&slot.to_le_bytes());
    if kind <= 1 {
        use alpenglow::crypto::merkle::MerkleRoot;
        b.extend_from_slice(hash_of(hash).as_hash().as_ref());
    }
    b.extend_from_slice(sig);
    b.extend_from_slice(&claimed.to_le_bytes());
    b
}

fn r_payload(p: Payload) -> String {
    format!("(mkPayload {} {} {})", cf::n(p.kind), cf::n(p.slot), cf::n(p.hash))
}

fn verdict_vote(r: std::thread::Result<Result<ValidatedVote, alpenglow::consensus::VoteValidationError>>) -> &'static str {
    match r {
        Err(_) => "V9Panic",
        Ok(Ok(_)) => "V9Ok",
        Ok(Err(e)) => if format!("{:?}", e).contains("UnknownSigner") { "V9UnknownSigner" } else { "V9InvalidSignature" },
    }
}

struct CertSpec { kind: u64, slot: u64, hash: u64, bits1: u64, a1: Vec<Atom>, bits2: u64, a2: Vec<Atom>, declared_scale: u64 }

fn build_cert(keys: &Keys, infos: &[ValidatorInfo], c: &CertSpec) -> Option<(Cert, u64)> {
    // validators slice handed to the constructor decides bitmask length (and the declared stake)
    let mk_infos = |bits: u64| -> Vec<ValidatorInfo> {
        let mut v: Vec<ValidatorInfo> = (0..bits).map(|i| { let mut x = infos[(i as usize) % infos.len()].clone(); x.id = ValidatorIndex::new(i); x.stake = Stake::new(if c.declared_scale > 1 { x.stake.inner().saturating_mul(c.declared_scale).min(1 << 40) } else { x.stake.inner() }); x }).collect();
        if v.is_empty() { v.push(infos[0].clone()); }
        v
    };
    let s = Slot::new(c.slot);
    let nv = |atoms: &[Atom], kind: u64| -> Option<Vec<Vec<u8>>> {
        Some(atoms.iter().map(|a| vote_struct_bytes(kind, c.slot, c.hash, a.claimed, &sig_bytes(keys, a.key, a.payload))).collect())
    };
    let _ = s;
    let cert = match c.kind {
        0 | 3 => {
            let vs: Vec<NotarVote> = nv(&c.a1, 0)?.iter().map(|b| wincode::deserialize::<NotarVote>(b).ok()).collect::<Option<Vec<_>>>()?;
            if vs.is_empty() || c.a1.iter().any(|a| a.claimed >= c.bits1) { return None; }
            let i = mk_infos(c.bits1);
            if c.kind == 0 { Cert::Notar(NotarCert::try_new(&vs, &i).ok()?) } else { Cert::FastFinal(FastFinalCert::try_new(&vs, &i).ok()?) }
        }
        4 => {
            let vs: Vec<FinalVote> = nv(&c.a1, 4)?.iter().map(|b| wincode::deserialize::<FinalVote>(b).ok()).collect::<Option<Vec<_>>>()?;
            if vs.is_empty() || c.a1.iter().any(|a| a.claimed >= c.bits1) { return None; }
            Cert::Final(FinalCert::try_new(&vs, &mk_infos(c.bits1)).ok()?)
        }
        1 => {
            // both halves share the validators slice => the same bitmask length
            let v1: Vec<NotarVote> = nv(&c.a1, 0)?.iter().map(|b| wincode::deserialize::<NotarVote>(b).ok()).collect::<Option<Vec<_>>>()?;
            let v2: Vec<NotarFallbackVote> = nv(&c.a2, 1)?.iter().map(|b| wincode::deserialize::<NotarFallbackVote>(b).ok()).collect::<Option<Vec<_>>>()?;
            if (v1.is_empty() && v2.is_empty()) || c.a1.iter().chain(c.a2.iter()).any(|a| a.claimed >= c.bits1) { return None; }
            Cert::NotarFallback(NotarFallbackCert::try_new(&v1, &v2, &mk_infos(c.bits1)).ok()?)
        }
        _ => {
            let v1: Vec<SkipVote> = nv(&c.a1, 2)?.iter().map(|b| wincode::deserialize::<SkipVote>(b).ok()).collect::<Option<Vec<_>>>()?;
            let v2: Vec<SkipFallbackVote> = nv(&c.a2, 3)?.iter().map(|b| wincode::deserialize::<SkipFallbackVote>(b).ok()).collect::<Option<Vec<_>>>()?;
            if (v1.is_empty() && v2.is_empty()) || c.a1.iter().chain(c.a2.iter()).any(|a| a.claimed >= c.bits1) { return None; }
            Cert::Skip(SkipCert::try_new(&v1, &v2, &mk_infos(c.bits1)).ok()?)
        }
    };
    let declared = cert.stake().inner();
    Some((cert, declared))
}

fn r_atoms(a: &[Atom]) -> String {
    cf::list(&a.iter().map(|x| format!("(mkAtom {} {} {})", cf::n(x.claimed), cf::n(x.key), r_payload(x.payload))).collect::<Vec<_>>())
}


// ---- signature bytes altered by a point of small order (outside the prime-order subgroup): invisible to the pairing,
//      only the subgroup check of the verifier rejects it.  Decided directly on the implementation (the ideal-signature
//      model has no notion of curve points). ----
mod torsion {
    use blst::{BLST_ERROR, blst_p1, blst_p1_add_or_double, blst_p1_affine, blst_p1_deserialize, blst_p1_double, blst_p1_from_affine,
               blst_p1_in_g1, blst_p1_is_inf, blst_p1_on_curve, blst_p1_serialize, blst_p1_uncompress};
    const R_BE: [u8; 32] = [0x73, 0xed, 0xa7, 0x53, 0x29, 0x9d, 0x7d, 0x48, 0x33, 0x39, 0xd8, 0x08, 0x09, 0xa1, 0xd8, 0x05,
                            0x53, 0xbd, 0xa4, 0x02, 0xff, 0xfe, 0x5b, 0xfe, 0xff, 0xff, 0xff, 0xff, 0x00, 0x00, 0x00, 0x01];
    fn mul_by_r(p: &blst_p1) -> blst_p1 {
        let mut acc = blst_p1::default();
        for byte in R_BE { for bit in (0..8).rev() {
            let mut dbl = blst_p1::default();
            unsafe { blst_p1_double(&mut dbl, &acc) };
            acc = dbl;
            if (byte >> bit) & 1 == 1 { let mut sum = blst_p1::default(); unsafe { blst_p1_add_or_double(&mut sum, &acc, p) }; acc = sum; }
        } }
        acc
    }
    pub fn small_order_point() -> Option<blst_p1> {
        for x in 1u8..=255 {
            let mut c = [0u8; 48]; c[0] = 0x80; c[47] = x;
            let mut a = blst_p1_affine::default();
            if unsafe { blst_p1_uncompress(&mut a, c.as_ptr()) } != BLST_ERROR::BLST_SUCCESS { continue; }
            let mut p = blst_p1::default();
            unsafe { blst_p1_from_affine(&mut p, &a) };
            let t = mul_by_r(&p);
            if unsafe { !blst_p1_is_inf(&t) && blst_p1_on_curve(&t) && !blst_p1_in_g1(&t) } { return Some(t); }
        }
        None
    }
    /// every 96-byte window of `bytes` that is a serialized subgroup point, with the small-order point added
    pub fn altered(bytes: &[u8]) -> Vec<Vec<u8>> {
        let Some(t) = small_order_point() else { return vec![] };
        let mut out = Vec::new();
        if bytes.len() < 96 { return out; }
        for i in 0..=bytes.len() - 96 {
            let w = &bytes[i..i + 96];
            if w.iter().all(|b| *b == 0) { continue; }
            let mut a = blst_p1_affine::default();
            if unsafe { blst_p1_deserialize(&mut a, w.as_ptr()) } != BLST_ERROR::BLST_SUCCESS { continue; }
            let mut p = blst_p1::default();
            unsafe { blst_p1_from_affine(&mut p, &a) };
            if unsafe { blst_p1_is_inf(&p) || !blst_p1_in_g1(&p) } { continue; }
            let mut q = blst_p1::default();
            let mut ser = [0u8; 96];
            unsafe { blst_p1_add_or_double(&mut q, &p, &t); blst_p1_serialize(ser.as_mut_ptr(), &q); }
            let mut b = bytes.to_vec();
            b[i..i + 96].copy_from_slice(&ser);
            if b != bytes { out.push(b); }
        }
        out
    }
}

pub fn gen_c09(seed: u64, tier: Tier) -> CaseSet {
    let mut rng = Rng::new(seed ^ 0xC09);
    let mut ring = KeyRing::new();
    let nbase = match tier { Tier::Quick => 60, Tier::Thorough => 1500 };
    let (mut cases, mut descr, mut sigs) = (Vec::new(), Vec::new(), Vec::new());
    let mut stats = Stats::default();
    let mut seen = HashSet::new();
    let mut verdicts: std::collections::HashMap<String, u64> = Default::default();
    let mut muts: std::collections::HashMap<&'static str, u64> = Default::default();
    let mut cid = 0u64;
    let mut push = |cases: &mut Vec<String>, descr: &mut Vec<String>, sigs: &mut Vec<(u64, u64, String)>, stats: &mut Stats, seen: &mut HashSet<String>, txt: String, d: String, verdict: &str, mutation: &'static str, cid: &mut u64| {
        sigs.push((*cid, 0, format!("validate:{}:{}", mutation, verdict)));
        stats.evaluations += 1;
        if seen.insert(txt.clone()) && mutation != "valid" { stats.distinct_nontrivial += 1; }
        if stats.samples.len() < 3 && mutation != "valid" && *cid % 7 == 3 { stats.samples.push(format!("{} -- {}", d, txt.chars().take(600).collect::<String>())); }
        cases.push(txt); descr.push(d);
        *cid += 1;
    };
    let mut torsion_tried = 0u64;
    for base_i in 0..nbase {
        let (stakes, fam) = stake_family(&mut rng);
        let n = stakes.len() as u64;
        let keys = ring.get(stakes.len() + 3);
        let epoch = keys.epoch(&stakes, 0);
        let infos: Vec<ValidatorInfo> = epoch.epoch_info().validators().to_vec();
        let st_txt = cf::list(&stakes.iter().map(|s| cf::n(*s)).collect::<Vec<_>>());
        // ---------------- votes ----------------
        let kind = rng.below(5);
        let slot = rng.range(1, 40);
        let hash = rng.range(1, 5);
        let a = rng.below(n);
        let base = Payload { kind, slot, hash };
        let other_kind = match kind { 0 => 1, 1 => 0, 2 => *rng.pick(&[3u64, 4]), 3 => *rng.pick(&[2u64, 4]), _ => *rng.pick(&[2u64, 3]) };
        let b = (a + 1 + rng.below(n.max(2) - 1)) % n.max(1);
        let vote_muts: Vec<(&'static str, Payload, u64, u64, Payload)> = vec![
            ("valid", base, a, a, base),
            ("other-signer-named", base, b, a, base),
            ("signed-by-other-key", base, a, b, base),
            ("signature-for-other-slot", base, a, a, Payload { slot: slot + 1, ..base }),
            ("signature-for-other-hash", base, a, a, Payload { hash: hash + 1, ..base }),
            ("signature-moved-from-other-kind", base, a, a, Payload { kind: other_kind, ..base }),
            ("signer-index-n", base, n, a, base),
            ("signer-index-n-plus", base, n + 1 + rng.below(5), a, base),
            ("signer-index-huge", base, u64::MAX - rng.below(3), a, base),
        ];
        for (name, p, claimed, key, sp) in vote_muts {
            if n == 1 && (name == "other-signer-named" || name == "signed-by-other-key") { continue; }
            let bytes = vote_struct_bytes(p.kind, p.slot, p.hash, claimed, &sig_bytes(keys, key, sp));
            let vote: Option<Vote> = match p.kind {
                0 => wincode::deserialize::<NotarVote>(&bytes).ok().map(Vote::Notar),
                1 => wincode::deserialize::<NotarFallbackVote>(&bytes).ok().map(Vote::NotarFallback),
                2 => wincode::deserialize::<SkipVote>(&bytes).ok().map(Vote::Skip),
                3 => wincode::deserialize::<SkipFallbackVote>(&bytes).ok().map(Vote::SkipFallback),
                _ => wincode::deserialize::<FinalVote>(&bytes).ok().map(Vote::Final),
            };
            let Some(vote) = vote else { continue };
            let ei = epoch.clone();
            let r = catch_unwind(AssertUnwindSafe(|| ValidatedVote::try_new(vote, ei.epoch_info())));
            let v = verdict_vote(r);
            *verdicts.entry(format!("vote:{}", v)).or_default() += 1;
            *muts.entry(name).or_default() += 1;
            let txt = format!("(C09V {} {} (mkSVote {} {} {} {}) {})", cf::n(cid), st_txt, r_payload(p), cf::n(claimed), cf::n(key), r_payload(sp), v);
            push(&mut cases, &mut descr, &mut sigs, &mut stats, &mut seen, txt, format!("case {}: vote mutation {} ({} validators, {})", cid, name, n, fam), v, name, &mut cid);
        }
        // ---------------- certificates ----------------
        let ckind = rng.below(5);
        let strong = ckind == 3;
        // signer subsets just below / at / above the threshold
        let mut order: Vec<u64> = (0..n).collect();
        rng.shuffle(&mut order);
        let total: u128 = stakes.iter().map(|s| *s as u128).sum();
        let need = total * if strong { 4 } else { 3 };
        let mut acc: u128 = 0; let mut at = Vec::new();
        for v in &order { if acc * 5 >= need { break; } acc += stakes[*v as usize] as u128; at.push(*v); }
        let mut below = at.clone(); below.pop();
        let mut above = at.clone(); if let Some(v) = order.iter().find(|v| !at.contains(v)) { above.push(*v); }
        let pk = |k: u64| -> (Payload, Payload) { match k { 0 | 3 => (Payload { kind: 0, slot, hash }, Payload { kind: 0, slot, hash }), 1 => (Payload { kind: 0, slot, hash }, Payload { kind: 1, slot, hash }), 2 => (Payload { kind: 2, slot, hash: 0 }, Payload { kind: 3, slot, hash: 0 }), _ => (Payload { kind: 4, slot, hash: 0 }, Payload { kind: 4, slot, hash: 0 }) } };
        let (p1, p2) = pk(ckind);
        let mixed = ckind == 1 || ckind == 2;
        let split = |rng: &mut Rng, set: &[u64]| -> (Vec<u64>, Vec<u64>) { if mixed { let k = rng.range(0, set.len() as u64) as usize; (set[..k].to_vec(), set[k..].to_vec()) } else { (set.to_vec(), vec![]) } };
        let honest = |s1: &[u64], s2: &[u64]| -> (Vec<Atom>, Vec<Atom>) {
            (s1.iter().map(|v| Atom { claimed: *v, key: *v, payload: p1 }).collect(), s2.iter().map(|v| Atom { claimed: *v, key: *v, payload: p2 }).collect())
        };
        let mut specs: Vec<(&'static str, CertSpec)> = Vec::new();
        for (name, set) in [("valid", &at), ("subset-below-threshold", &below), ("subset-above-threshold", &above)] {
            if set.is_empty() { continue; }
            let (s1, s2) = split(&mut rng, set);
            let (a1, a2) = honest(&s1, &s2);
            specs.push((name, CertSpec { kind: ckind, slot, hash, bits1: n, a1, bits2: n, a2, declared_scale: 1 }));
        }
        if !at.is_empty() {
            let (s1, s2) = split(&mut rng, &at);
            let (a1, a2) = honest(&s1, &s2);
            let mk = |a1: Vec<Atom>, a2: Vec<Atom>, bits: u64, scale: u64| CertSpec { kind: ckind, slot, hash, bits1: bits, a1, bits2: bits, a2, declared_scale: scale };
            // declared stake inflated / deflated
            specs.push(("declared-stake-inflated", mk(a1.clone(), a2.clone(), n, 1000)));
            if !below.is_empty() { let (b1, b2) = split(&mut rng, &below); let (x1, x2) = honest(&b1, &b2); specs.push(("declared-stake-inflated-below-threshold", mk(x1, x2, n, 1000))); }
            // one atom signed by another key
            let mut m1 = a1.clone(); let mut m2 = a2.clone();
            if n > 1 { if let Some(x) = m1.first_mut().or(m2.first_mut()) { x.key = (x.key + 1) % n; } specs.push(("one-signature-by-other-key", mk(m1, m2, n, 1))); }
            // two signers' signatures exchanged (aggregate unchanged)
            let mut all: Vec<Atom> = a1.iter().chain(a2.iter()).cloned().collect();
            if a1.len() >= 2 { let mut x = a1.clone(); let k0 = x[0].key; x[0].key = x[1].key; x[1].key = k0; specs.push(("two-signatures-exchanged", mk(x, a2.clone(), n, 1))); }
            // signature for another slot / hash / kind
            let mut x = a1.clone(); let mut y = a2.clone();
            if let Some(z) = x.first_mut().or(y.first_mut()) { z.payload.slot += 1; } specs.push(("signature-for-other-slot", mk(x, y, n, 1)));
            if ckind == 0 || ckind == 1 || ckind == 3 { let mut x = a1.clone(); let mut y = a2.clone(); if let Some(z) = x.first_mut().or(y.first_mut()) { z.payload.hash += 1; } specs.push(("signature-for-other-hash", mk(x, y, n, 1))); }
            // halves' signatures moved between vote kinds
            if mixed {
                let x: Vec<Atom> = a1.iter().map(|a| Atom { payload: p2, ..*a }).collect();
                let y: Vec<Atom> = a2.iter().map(|a| Atom { payload: p1, ..*a }).collect();
                specs.push(("halves-signatures-swapped", mk(x, y, n, 1)));
                // the two aggregate signatures exchanged between the halves while the bitmasks stay: the SUM of the two
                // aggregates is unchanged (pairwise: half 1 names s1[i] but carries s2[i]'s signature on the other payload)
                if at.len() >= 2 {
                    let m = at.len() / 2;
                    let x: Vec<Atom> = (0..m).map(|i| Atom { claimed: at[i], key: at[m + i], payload: p2 }).collect();
                    let mut y: Vec<Atom> = (0..m).map(|i| Atom { claimed: at[m + i], key: at[i], payload: p1 }).collect();
                    for v in &at[2 * m..] { y.push(Atom { claimed: *v, key: *v, payload: p2 }); }
                    specs.push(("halves-aggregates-exchanged", mk(x, y, n, 1)));
                }
                // a validator in both halves: distinct stake below the threshold, per-half sum above
                if !below.is_empty() {
                    let (b1, _) = (below.clone(), 0);
                    let x: Vec<Atom> = b1.iter().map(|v| Atom { claimed: *v, key: *v, payload: p1 }).collect();
                    let y: Vec<Atom> = b1.iter().map(|v| Atom { claimed: *v, key: *v, payload: p2 }).collect();
                    specs.push(("same-validators-in-both-halves-below-threshold", mk(x, y, n, 1)));
                }
            } else {
                let otherk = match ckind { 0 | 3 => 1, _ => 2 };
                let x: Vec<Atom> = a1.iter().map(|a| Atom { payload: Payload { kind: otherk, ..a.payload }, ..*a }).collect();
                specs.push(("signatures-from-other-vote-kind", mk(x, vec![], n, 1)));
            }
            // bitmask longer / shorter than the validator set; set bit beyond the validator set
            specs.push(("bitmask-longer", mk(a1.clone(), a2.clone(), n + 1 + rng.below(2), 1)));
            let maxc = all.iter().map(|a| a.claimed).max().unwrap_or(0);
            if maxc + 1 < n { specs.push(("bitmask-shorter", mk(a1.clone(), a2.clone(), maxc + 1, 1))); }
            let mut x = a1.clone(); let mut y = a2.clone();
            let extra = Atom { claimed: n + rng.below(2), key: rng.below(n), payload: p1 };
            if x.is_empty() { y.push(Atom { payload: p2, ..extra }); } else { x.push(extra); }
            specs.push(("signer-bit-beyond-validator-set", mk(x, y, n + 2, 1)));
            all.clear();
        }
        for (name, spec) in specs {
            let Some((cert, declared)) = build_cert(keys, &infos, &spec) else { continue };
            if name == "valid" && base_i % 4 == 0 {
                // the valid certificate with each aggregate signature altered by a small-order point must be rejected
                let bytes = wincode::serialize(&cert).expect("serialize");
                for alt in torsion::altered(&bytes) {
                    torsion_tried += 1;
                    if let Ok(c2) = alpenglow::network::deserialize::<Cert>(&alt) {
                        let ei = epoch.clone();
                        let r = catch_unwind(AssertUnwindSafe(|| ValidatedCert::try_new(c2, ei.epoch_info())));
                        match r { Ok(Err(_)) => {} Ok(Ok(_)) => stats.harness_findings.push((cid, "validate:signature-plus-small-order-point:cert-admitted".into())), Err(_) => stats.harness_findings.push((cid, "validate:signature-plus-small-order-point:panic".into())) }
                    }
                }
            }
            let ei = epoch.clone();
            let r = catch_unwind(AssertUnwindSafe(|| ValidatedCert::try_new(cert, ei.epoch_info())));
            let v = match r { Err(_) => "V9Panic", Ok(Ok(_)) => "V9Ok", Ok(Err(e)) => if format!("{:?}", e).contains("Insufficient") { "V9InsufficientStake" } else { "V9InvalidSignature" } };
            *verdicts.entry(format!("cert:{}", v)).or_default() += 1;
            *muts.entry(name).or_default() += 1;
            let h1 = if spec.a1.is_empty() { "None".to_string() } else { format!("(Some (mkHalf {} {}))", cf::n(spec.bits1), r_atoms(&spec.a1)) };
            let h2 = if spec.a2.is_empty() { "None".to_string() } else { format!("(Some (mkHalf {} {}))", cf::n(spec.bits2), r_atoms(&spec.a2)) };
            let txt = format!("(C09C {} {} (mkSCert {} {} {} {} {} {}) {})", cf::n(cid), st_txt, cf::n(spec.kind), cf::n(spec.slot), cf::n(if spec.kind == 2 || spec.kind == 4 { 0 } else { spec.hash }), h1, h2, cf::n(declared), v);
            push(&mut cases, &mut descr, &mut sigs, &mut stats, &mut seen, txt, format!("case {}: cert kind {} mutation {} ({} validators, {})", cid, spec.kind, name, n, fam), v, name, &mut cid);
        }
    }
    stats.rule = "for each base epoch (stake families of C03) one valid vote and one valid certificate of a random kind with the signer subset exactly at the threshold, plus the mutation catalogue: votes - other signer named, signed by another key, signature for another slot / hash / vote kind (real signatures transplanted on the wire level), signer index n / n+k / huge; certificates - subset just below / above the threshold, declared stake inflated (also below threshold), one signature by another key, two signatures exchanged, signature for another slot / hash, halves' signatures swapped (each half signed the other half's payload), the halves' aggregate signatures exchanged (sum of both aggregates unchanged), signatures from another vote kind, the same validators in both halves, bitmask longer / shorter than the validator set, signer bit beyond the validator set; every fourth valid certificate additionally with a point of small order (outside the prime-order subgroup, invisible to the pairing) added to each of its aggregate signatures on the wire - must be rejected; non-trivial = a mutated message; distinct by content".into();
    let mut v: Vec<_> = verdicts.into_iter().collect(); v.sort();
    stats.distribution.push(("verdicts".into(), v.iter().map(|(k, c)| format!("{}={}", k, c)).collect::<Vec<_>>().join(", ")));
    let mut v: Vec<_> = muts.into_iter().collect(); v.sort();
    stats.distribution.push(("certificates_with_a_small_order_point_added_to_an_aggregate_signature".into(), torsion_tried.to_string()));
    stats.distribution.push(("mutations".into(), v.iter().map(|(k, c)| format!("{}={}", k, c)).collect::<Vec<_>>().join(", ")));
    CaseSet { header: "From AG Require Import Model.Pool Model.Validate Oracle.C09.\n".to_string(), runner: "c09_run".to_string(), defs: Vec::new(), cases, descr, sigs, stats }
}
