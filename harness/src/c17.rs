//! C17: committee sampling.  Builds every sampling strategy of the crate on structured stake
//! distributions, feeds it a scripted random source (so that the Coq model consumes exactly the same
//! words), records constructor panics, committees and (for the partition-based samplers) the bins.
use std::collections::{HashMap, HashSet};
use std::convert::Infallible;
use std::panic::{AssertUnwindSafe, catch_unwind};

use alpenglow::disseminator::rotor::sampling_strategy::{
    AllSameSampler, DecayingAcceptanceSampler, FaitAccompli1Sampler, FaitAccompli2Sampler, IidQuorumSampler,
    PartitionSampler, QuorumSamplingStrategy, SamplingStrategy, StakeWeightedSampler, TurbineSampler, UniformSampler,
};
use alpenglow::network::localhost_ip_sockaddr;
use alpenglow::{Stake, ValidatorIndex, ValidatorInfo};
use rand::TryRng;

use crate::coqfmt as cf;
use crate::pool::Keys;
use crate::rng::Rng;
use crate::{CaseSet, Stats, Tier};

// ---------------------------------------------------------------------------------------------
// scripted random source: 32-bit words; next_u64 = two consecutive words, low word first (the
// layout of rand_core's BlockRng, i.e. of StdRng).  Words: `prefix`, then either xorshift32 outputs or a constant.
// ---------------------------------------------------------------------------------------------
#[derive(Clone, Debug)]
pub enum Tail {
    Split(u64),
    Const(u32),
}

#[derive(Clone, Debug)]
pub struct ScriptRng {
    pub prefix: Vec<u32>,
    pub pos: usize,
    pub tail: Tail,
    pub used: u64,
}

impl ScriptRng {
    pub fn new(prefix: Vec<u32>, tail: Tail) -> Self {
        ScriptRng { prefix, pos: 0, tail, used: 0 }
    }
    fn word(&mut self) -> u32 {
        self.used += 1;
        if self.pos < self.prefix.len() {
            let w = self.prefix[self.pos];
            self.pos += 1;
            return w;
        }
        match &mut self.tail {
            Tail::Const(c) => *c,
            Tail::Split(x) => {
                // xorshift32 (Model/Sampling.v xs32_next); the state is the low 32 bits of the seed, never 0
                let mut y = *x as u32;
                y ^= y << 13;
                y ^= y >> 17;
                y ^= y << 5;
                *x = y as u64;
                y
            }
        }
    }
}

impl TryRng for ScriptRng {
    type Error = Infallible;
    fn try_next_u32(&mut self) -> Result<u32, Infallible> {
        Ok(self.word())
    }
    fn try_next_u64(&mut self) -> Result<u64, Infallible> {
        let lo = self.word() as u64;
        let hi = self.word() as u64;
        Ok((hi << 32) | lo)
    }
    fn try_fill_bytes(&mut self, dst: &mut [u8]) -> Result<(), Infallible> {
        for chunk in dst.chunks_mut(4) {
            let w = self.word().to_le_bytes();
            chunk.copy_from_slice(&w[..chunk.len()]);
        }
        Ok(())
    }
}

// ---------------------------------------------------------------------------------------------
// validator sets
// ---------------------------------------------------------------------------------------------
pub struct InfoFactory {
    template: ValidatorInfo,
}

impl InfoFactory {
    pub fn new() -> Self {
        InfoFactory { template: Keys::new(1).infos[0].clone() }
    }
    /// id = position (what EpochInfo::new asserts), distinct disseminator ports 1..=n
    pub fn infos(&self, stakes: &[u64]) -> Vec<ValidatorInfo> {
        stakes
            .iter()
            .enumerate()
            .map(|(i, s)| {
                let mut v = self.template.clone();
                v.id = ValidatorIndex::new(i as u64);
                v.stake = Stake::new(*s);
                v.disseminator_address = localhost_ip_sockaddr((i + 1) as u16);
                v
            })
            .collect()
    }
}

/// Stake families of the property: equal, small integers, heavy-tailed, one dominant validator,
/// stakes straddling the 1/k boundaries, lamport-scale values (beyond 2^53, total towards 2^63).
pub fn stakes_for(rng: &mut Rng, fam: usize, n: usize, k: u64) -> (Vec<u64>, &'static str) {
    let n = n.max(1);
    match fam {
        0 => (vec![*rng.pick(&[1u64, 1, 1, 7, 1000, 1_000_000_000]); n], "equal"),
        1 => ((0..n).map(|_| rng.range(1, 5)).collect(), "small-ints"),
        2 => {
            // heavy-tailed (zipf-like), shuffled positions
            let c = 1_000_000u64 * n as u64;
            let a = rng.range(1, 2);
            let mut v: Vec<u64> = (0..n).map(|i| { let d = (i as u64 + 1).pow(a as u32); (c / d).max(1) }).collect();
            rng.shuffle(&mut v);
            (v, "heavy-tailed")
        }
        3 => {
            // one dominant validator: share from just over 1/2 up to 1 - 1/(4k)
            let mut v: Vec<u64> = (0..n).map(|_| rng.range(1, 10)).collect();
            let rest: u64 = v.iter().skip(1).sum::<u64>().max(1);
            let mult = *rng.pick(&[1u64, 2, 3, 9, 99, 4 * k.max(1)]);
            let i = rng.below(n as u64) as usize;
            v[i] = rest * mult + rng.below(2);
            (v, "dominant")
        }
        4 => {
            // total = k * q; stakes m*q + d with d in {-1, 0, +1}: exactly on / one unit around the
            // boundaries where floor(f * k) changes
            let k = k.max(1);
            let q = *rng.pick(&[1u64, 2, 3, 10, 49, 1000, 333_333]);
            let total = k * q;
            let mut v = Vec::new();
            let mut left = total;
            for i in 0..n {
                if i + 1 == n {
                    v.push(left.max(1));
                    break;
                }
                let avg = left / (n - i) as u64;
                let m = (avg / q).max(if rng.chance(1, 2) { 1 } else { 0 });
                let d = rng.below(3) as i64 - 1;
                let mut s = (m * q) as i64 + d;
                if s < 1 { s = 1; }
                let s = (s as u64).min(left.saturating_sub((n - i - 1) as u64).max(1));
                v.push(s);
                left = left.saturating_sub(s);
            }
            (v, "straddle-1/k")
        }
        5 => {
            // lamport scale: individual stakes beyond 2^53, all kinds of low bits
            let base = *rng.pick(&[1u64 << 53, (1u64 << 54) + 1, 400_000_000_000_000_000 / n as u64, (1u64 << 62) / n as u64]);
            ((0..n).map(|_| base.max(2) - 1 + rng.below(3)).collect(), "lamport-scale")
        }
        _ => {
            // mixture: a few large validators on exact k-ths plus dust
            let k = k.max(1);
            let mut v: Vec<u64> = (0..n).map(|_| rng.range(1, 3)).collect();
            let dust: u64 = v.iter().sum();
            let big = rng.range(1, 3.min(n as u64)) as usize;
            for j in 0..big { v[j] = dust * k / (big as u64 + 1) + rng.below(2); }
            (v, "big-plus-dust")
        }
    }
}

// ---------------------------------------------------------------------------------------------
// strategies
// ---------------------------------------------------------------------------------------------
#[derive(Clone, Copy, Debug, PartialEq, Eq, Hash)]
pub enum Strat {
    AllSame(u64, u64),
    Uniform(u64),
    Stake(u64),
    Turbine(u64, u64),
    Decay(u64, u64, u64),
    Partition(u64),
    Fa1Part(u64),
    Fa1Stake(u64),
    Fa2(u64),
}

impl Strat {
    pub fn name(&self) -> &'static str {
        match self {
            Strat::AllSame(..) => "AllSame",
            Strat::Uniform(..) => "Uniform",
            Strat::Stake(..) => "StakeWeighted",
            Strat::Turbine(..) => "Turbine",
            Strat::Decay(..) => "DecayingAcceptance",
            Strat::Partition(..) => "Partition",
            Strat::Fa1Part(..) => "FA1-Partition",
            Strat::Fa1Stake(..) => "FA1-StakeWeighted",
            Strat::Fa2(..) => "FA2",
        }
    }
    pub fn k(&self) -> u64 {
        match *self {
            Strat::AllSame(_, k) | Strat::Uniform(k) | Strat::Stake(k) | Strat::Turbine(_, k) | Strat::Decay(_, _, k)
            | Strat::Partition(k) | Strat::Fa1Part(k) | Strat::Fa1Stake(k) | Strat::Fa2(k) => k,
        }
    }
    pub fn coq(&self) -> String {
        match *self {
            Strat::AllSame(v, k) => format!("(StAllSame {} {})", cf::n(v), cf::n(k)),
            Strat::Uniform(k) => format!("(StUniform {})", cf::n(k)),
            Strat::Stake(k) => format!("(StStake {})", cf::n(k)),
            Strat::Turbine(f, k) => format!("(StTurbine {} {})", cf::n(f), cf::n(k)),
            Strat::Decay(a, b, k) => format!("(StDecay {} {} {})", cf::n(a), cf::n(b), cf::n(k)),
            Strat::Partition(b) => format!("(StPartition {})", cf::n(b)),
            Strat::Fa1Part(k) => format!("(StFA1Part {})", cf::n(k)),
            Strat::Fa1Stake(k) => format!("(StFA1Stake {})", cf::n(k)),
            Strat::Fa2(k) => format!("(StFA2 {})", cf::n(k)),
        }
    }
    fn is_fa(&self) -> bool {
        matches!(self, Strat::Fa1Part(_) | Strat::Fa1Stake(_) | Strat::Fa2(_))
    }
}

pub enum Built {
    AllSame(IidQuorumSampler<AllSameSampler>),
    Uniform(IidQuorumSampler<UniformSampler>),
    Stake(IidQuorumSampler<StakeWeightedSampler>),
    Turbine(IidQuorumSampler<TurbineSampler>),
    Decay(DecayingAcceptanceSampler),
    Partition(PartitionSampler),
    Fa1Part(FaitAccompli1Sampler<PartitionSampler>),
    Fa1Stake(FaitAccompli1Sampler<IidQuorumSampler<StakeWeightedSampler>>),
    Fa2(FaitAccompli2Sampler),
}

/// Calls the real constructor (may panic).
pub fn build(st: Strat, infos: Vec<ValidatorInfo>) -> Built {
    match st {
        Strat::AllSame(v, k) => Built::AllSame(AllSameSampler(infos[v as usize].clone()).into_quorum_strategy(k as usize)),
        Strat::Uniform(k) => Built::Uniform(UniformSampler::new(infos).into_quorum_strategy(k as usize)),
        Strat::Stake(k) => Built::Stake(StakeWeightedSampler::new(infos).into_quorum_strategy(k as usize)),
        Strat::Turbine(f, k) => Built::Turbine(TurbineSampler::new_with_fanout(infos, f as usize).into_quorum_strategy(k as usize)),
        Strat::Decay(a, b, k) => Built::Decay(DecayingAcceptanceSampler::new(infos, a as f64 / b as f64, k as usize)),
        Strat::Partition(b) => Built::Partition(PartitionSampler::new(infos, b as usize)),
        Strat::Fa1Part(k) => Built::Fa1Part(FaitAccompli1Sampler::new_with_partition_fallback(infos, k)),
        Strat::Fa1Stake(k) => Built::Fa1Stake(FaitAccompli1Sampler::new_with_stake_weighted_fallback(infos, k)),
        Strat::Fa2(k) => Built::Fa2(FaitAccompli2Sampler::new(infos, k)),
    }
}

impl Built {
    pub fn sample(&self, rng: &mut ScriptRng) -> Vec<u64> {
        let q = match self {
            Built::AllSame(s) => s.sample_quorum(rng),
            Built::Uniform(s) => s.sample_quorum(rng),
            Built::Stake(s) => s.sample_quorum(rng),
            Built::Turbine(s) => s.sample_quorum(rng),
            Built::Decay(s) => s.sample_quorum(rng),
            Built::Partition(s) => s.sample_quorum(rng),
            Built::Fa1Part(s) => s.sample_quorum(rng),
            Built::Fa1Stake(s) => s.sample_quorum(rng),
            Built::Fa2(s) => s.sample_quorum(rng),
        };
        q.into_iter().map(|v| v.inner()).collect()
    }
    /// SamplingStrategy::sample on the same object (None: the strategy offers no single draws)
    pub fn sample_single(&self, rng: &mut ScriptRng) -> Option<u64> {
        Some(match self {
            Built::AllSame(s) => s.sample(rng).inner(),
            Built::Uniform(s) => s.sample(rng).inner(),
            Built::Stake(s) => s.sample(rng).inner(),
            Built::Turbine(s) => s.sample(rng).inner(),
            Built::Decay(s) => if rng.prefix.len() % 2 == 0 { s.sample(rng).inner() } else { s.sample_info(rng).id.inner() },
            _ => return None,
        })
    }
    /// Clone (copies the decaying sampler's counters)
    pub fn clone_instance(&self) -> Option<Built> {
        Some(match self {
            Built::AllSame(s) => Built::AllSame(s.clone()),
            Built::Uniform(s) => Built::Uniform(s.clone()),
            Built::Stake(s) => Built::Stake(s.clone()),
            Built::Turbine(s) => Built::Turbine(s.clone()),
            Built::Decay(s) => Built::Decay(s.clone()),
            _ => return None,
        })
    }
    /// DecayingAcceptanceSampler::reset (nothing to reset elsewhere)
    pub fn reset(&self) {
        if let Built::Decay(s) = self { s.reset(); }
    }
    pub fn bins(&self) -> Vec<Vec<(u64, u64)>> {
        let p = match self {
            Built::Partition(p) => p,
            Built::Fa1Part(s) => &s.fallback_sampler,
            _ => return Vec::new(),
        };
        p.bin_validators
            .iter()
            .zip(p.bin_stakes.iter())
            .map(|(vs, ss)| vs.iter().zip(ss.iter()).map(|(v, s)| (v.inner(), s.inner())).collect())
            .collect()
    }
}

fn r_out(o: &Option<Vec<u64>>) -> String {
    match o {
        None => "IPanic".to_string(),
        Some(q) => format!("(IQ {})", cf::list(&q.iter().map(|v| cf::n(*v)).collect::<Vec<_>>())),
    }
}

fn count(q: &[u64], v: u64) -> u64 {
    q.iter().filter(|x| **x == v).count() as u64
}

/// label of a draw (only used for signatures / statistics; the verdict is the Coq oracle's)
/// A panic of the decaying sampler after it consumed at least MAX_TRIES_PER_SAMPLE random words in one call is its
/// rejection loop giving up (documented in the crate, recorded as a known finding); any other panic is not.
const REJECTION_BUDGET: u64 = 100_000;
fn classify(st: Strat, stakes: &[u64], out: &Option<Vec<u64>>, out2: &Option<Vec<u64>>, degenerate: bool, used: u64) -> &'static str {
    let Some(q) = out else {
        return if degenerate { "panic-degenerate-source" } else if matches!(st, Strat::Decay(..)) && used >= REJECTION_BUDGET { "panic-rejection-budget-exhausted" } else { "panic" }
    };
    let n = stakes.len() as u64;
    let total: u128 = stakes.iter().map(|s| *s as u128).sum();
    if q.len() as u64 != st.k() { return "wrong-length"; }
    if q.iter().any(|v| *v >= n) { return "out-of-range"; }
    if q.iter().any(|v| stakes[*v as usize] == 0) { return "zero-weight-drawn"; }
    if st.is_fa() && total > 0 {
        for (v, s) in stakes.iter().enumerate() {
            let fl = (*s as u128 * st.k() as u128 / total) as u64;
            if count(q, v as u64) < fl { return "below-floor"; }
        }
    }
    if let Strat::Decay(a, b, _) = st {
        if b != 0 {
            let cap = (a + b - 1) / b;
            if q.iter().any(|v| count(q, *v) > cap) { return "above-cap"; }
        }
    }
    if out != out2 { return "instances-differ"; }
    "ok"
}

struct Plan {
    stakes: Vec<u64>,
    fam: &'static str,
    strat: Strat,
    /// (prefix, tail, degenerate)
    draws: Vec<(Vec<u32>, Tail, bool)>,
}

fn fair_draws(rng: &mut Rng, cnt: usize) -> Vec<(Vec<u32>, Tail, bool)> {
    let mut v = Vec::new();
    for i in 0..cnt {
        let prefix: Vec<u32> = match i % 4 {
            0 => vec![],
            // a run of zero words: Lemire rejection (low product word below the threshold) or index 0, u = 0.0
            1 => vec![0; rng.range(1, 6) as usize],
            // all-ones words: last index, u = 1 - 2^-53, Canon's second word
            2 => vec![u32::MAX; rng.range(1, 6) as usize],
            _ => (0..rng.range(1, 8)).map(|_| *rng.pick(&[0u32, 1, u32::MAX, u32::MAX - 1, 0x8000_0000, 0x7FFF_FFFF])).collect(),
        };
        v.push((prefix, Tail::Split((rng.next() & 0xFFFF_FFFF) | 1), false));
    }
    v
}

pub fn gen_c17(seed: u64, tier: Tier) -> CaseSet {
    let mut rng = Rng::new(seed ^ 0xC17);
    let fac = InfoFactory::new();
    let thorough = tier == Tier::Thorough;
    let mut plans: Vec<Plan> = Vec::new();

    // ---- pinned boundary configurations (the suspicions of DESIGN.md section 9 and their neighbours) ----
    let pinned: Vec<(Vec<u64>, Strat)> = vec![
        (vec![1; 49], Strat::Fa1Stake(49)),
        (vec![1; 49], Strat::Fa1Part(49)),
        (vec![1; 49], Strat::Fa2(49)),
        (vec![1; 4], Strat::Partition(3)),
        (vec![1; 4], Strat::Partition(4)),
        (vec![1; 4], Strat::Partition(2)),
        (vec![1; 5], Strat::Fa1Part(64)),
        (vec![1; 100], Strat::Fa1Part(64)),
        (vec![1; 64], Strat::Fa1Part(64)),
        (vec![1; 128], Strat::Fa1Part(64)),
        (vec![1, 1], Strat::Fa2(1)),
        (vec![1, 1], Strat::Fa2(2)),
        (vec![1, 1], Strat::Fa2(3)),
        (vec![1; 64], Strat::Fa2(64)),
        (vec![1], Strat::Turbine(200, 4)),
        (vec![1, 1], Strat::Turbine(200, 4)),
        (vec![1, 1, 1], Strat::Turbine(200, 4)),
        (vec![1, 1, 1], Strat::Turbine(0, 4)),
        (vec![5, 1, 1], Strat::Turbine(1, 8)),
        (vec![1], Strat::Stake(64)),
        (vec![1], Strat::Fa1Stake(64)),
        (vec![1], Strat::Fa1Part(64)),
        (vec![1], Strat::Fa2(64)),
        (vec![1], Strat::Partition(64)),
        (vec![1], Strat::Decay(1, 1, 1)),
        (vec![1], Strat::Uniform(3)),
        (vec![3, 2, 1], Strat::AllSame(1, 5)),
        (vec![(1 << 53) + 1, 1], Strat::Fa1Stake(1)),
        (vec![(1 << 54) - 1, 1], Strat::Fa1Stake(1)),
        (vec![(1 << 54) - 1, 1], Strat::Fa1Part(64)),
        (vec![(1 << 54) - 1, 1], Strat::Fa2(64)),
        (vec![1 << 53, (1 << 53) - 1, (1 << 53) - 1, (1 << 53) - 1, (1 << 53) - 1], Strat::Fa2(25)),
        (vec![(1 << 53) + 1, (1 << 53) + 1, (1 << 53) + 1], Strat::Fa2(3)),
        (vec![(1 << 62) - 1, 1 << 62], Strat::Fa1Stake(64)),
        (vec![1 << 62, 1 << 62], Strat::Fa1Part(64)),
        (vec![1 << 63, 1 << 63], Strat::Stake(4)),
        (vec![1; 10], Strat::Decay(1, 1, 10)),
        (vec![1; 10], Strat::Decay(5, 2, 25)),
        (vec![10_000, 1, 1, 1, 1, 1, 1, 1, 1, 1], Strat::Decay(5, 1, 20)),
        (vec![1; 3], Strat::Decay(1, 0, 9)),
    ];
    for (stakes, strat) in pinned {
        plans.push(Plan { stakes, fam: "pinned", strat, draws: fair_draws(&mut rng, 3) });
    }
    // FEASIBLE configuration (3 validators, 3 seats, one seat each) on which the decaying sampler's rejection loop
    // gives up with a fair random source: the third seat can only go to the dust validator (known finding)
    plans.push(Plan { stakes: vec![1 << 40, 1 << 40, 1], fam: "pinned", strat: Strat::Decay(1, 1, 3), draws: vec![(vec![], Tail::Split(0x9E37_79B9), false)] });
    // degenerate random sources / infeasible configurations: the rejection loops give up
    plans.push(Plan { stakes: vec![1, 1], fam: "pinned", strat: Strat::Decay(1, 1, 2), draws: vec![(vec![], Tail::Const(0), true)] });
    if thorough {
        plans.push(Plan { stakes: vec![1, 1], fam: "pinned", strat: Strat::Decay(1, 1, 3), draws: vec![(vec![], Tail::Split((rng.next() & 0xFFFF_FFFF) | 1), true)] });
    }
    plans.push(Plan { stakes: vec![7, 1, 1], fam: "pinned", strat: Strat::Turbine(1, 2), draws: vec![(vec![], Tail::Const(u32::MAX), true)] });

    // ---- structured sweep ----
    let ns_quick: [usize; 14] = [1, 2, 3, 4, 5, 7, 10, 33, 49, 64, 65, 100, 200, 1000];
    let ks: [u64; 7] = [1, 2, 3, 32, 49, 64, 200];
    let nconf = if thorough { 6000 } else { 540 };
    for i in 0..nconf {
        let n = if thorough && rng.chance(1, 3) { rng.range(1, 64) as usize } else if rng.chance(1, 12) { 2000 } else { *rng.pick(&ns_quick) };
        let k = if rng.chance(1, 3) { 64 } else { *rng.pick(&ks) };
        let fam = (i % 7) as usize;
        let (stakes, famname) = stakes_for(&mut rng, fam, n, k);
        let strat = match rng.below(16) {
            0 => Strat::AllSame(rng.below(n as u64), k),
            1 => Strat::Uniform(k),
            2 | 3 => Strat::Stake(k),
            4 | 5 => Strat::Decay(*rng.pick(&[1u64, 2, 5, 3, 5]), *rng.pick(&[1u64, 1, 1, 2]), k.min((n as u64).max(1))),
            6 | 7 => Strat::Partition(*rng.pick(&[1u64, 2, 3, k, (n as u64).max(1)])),
            8 | 9 => Strat::Fa1Part(k),
            10 | 11 | 12 => Strat::Fa1Stake(k),
            13 | 14 => Strat::Fa2(k),
            _ => Strat::Turbine(*rng.pick(&[1u64, 2, 3, 200]), k.min(8)),
        };
        // TurbineSampler::new is cubic in n: keep it small
        let (stakes, strat) = if let Strat::Turbine(..) = strat {
            let lim = if thorough { 28 } else { 16 };
            (stakes.into_iter().take(lim).collect::<Vec<_>>(), strat)
        } else { (stakes, strat) };
        // decay: keep the configuration feasible (k <= n * floor(max_samples)), leave a margin for the rejection loop
        let strat = if let Strat::Decay(a, b, k) = strat {
            let cap = (a / b).max(1);
            Strat::Decay(a, b, k.min((stakes.len() as u64 * cap).div_ceil(2)).max(1))
        } else { strat };
        let strat = if let Strat::AllSame(v, k) = strat { Strat::AllSame(v.min(stakes.len() as u64 - 1), k) } else { strat };
        let nd = if stakes.len() >= 1000 { 2 } else { 4 };
        plans.push(Plan { stakes, fam: famname, strat, draws: fair_draws(&mut rng, nd) });
    }

    // ---- run the implementation ----
    let (mut cases, mut descr, mut sigs) = (Vec::new(), Vec::new(), Vec::new());
    let mut stats = Stats::default();
    let mut seen = HashSet::new();
    let mut by_strat: HashMap<&'static str, u64> = HashMap::new();
    let mut by_fam: HashMap<&'static str, u64> = HashMap::new();
    let mut by_class: HashMap<String, u64> = HashMap::new();
    let mut sizes: Vec<usize> = Vec::new();
    for (cid, p) in plans.iter().enumerate() {
        let cid = cid as u64;
        let st = p.strat;
        if std::env::var("AGVERIF_DEBUG").is_ok() { eprintln!("[c17] case {} {:?} n={} fam={} stakes[..4]={:?}", cid, st, p.stakes.len(), p.fam, &p.stakes[..p.stakes.len().min(4)]); }
        *by_strat.entry(st.name()).or_default() += 1;
        *by_fam.entry(p.fam).or_default() += 1;
        sizes.push(p.stakes.len());
        let mk = || catch_unwind(AssertUnwindSafe(|| build(st, fac.infos(&p.stakes)))).ok();
        let mut b1 = mk();
        let mut b2 = mk();
        // the bins are a function of the validator set (fixed-seed shuffle): both instances must have the same
        let bins_equal = match (&b1, &b2) { (Some(x), Some(y)) => x.bins() == y.bins(), _ => true };
        let ctor_class = match (&b1, &b2) { (None, _) => "panic", (Some(_), None) => "second-instance-panic", _ => if bins_equal { "ok" } else { "bins-differ" } };
        *by_class.entry(format!("{}:ctor:{}", st.name(), ctor_class)).or_default() += 1;
        sigs.push((cid, 0, format!("{}:ctor:{}", st.name(), ctor_class)));
        stats.evaluations += 1;
        let ctor_txt = match &b1 {
            None => "ICtorPanic".to_string(),
            Some(b) => format!("(ICtorOk {})", cf::list(&b.bins().iter().map(|bin| cf::list(&bin.iter().map(|(v, s)| format!("({},{})", cf::n(*v), cf::n(*s))).collect::<Vec<_>>())).collect::<Vec<_>>())),
        };
        let mut draws_txt = Vec::new();
        if b1.is_some() && b2.is_some() {
            for (di, (prefix, tail, degenerate)) in p.draws.iter().enumerate() {
                let mut r1 = ScriptRng::new(prefix.clone(), tail.clone());
                let mut r2 = r1.clone();
                let o1 = { let b = b1.as_ref().unwrap(); catch_unwind(AssertUnwindSafe(|| b.sample(&mut r1))).ok() };
                let o2 = { let b = b2.as_ref().unwrap(); catch_unwind(AssertUnwindSafe(|| b.sample(&mut r2))).ok() };
                // a panicking DecayingAcceptanceSampler keeps its counters: rebuild
                if o1.is_none() { b1 = mk(); }
                if o2.is_none() { b2 = mk(); }
                let class = classify(st, &p.stakes, &o1, &o2, *degenerate, r1.used);
                *by_class.entry(format!("{}:draw:{}", st.name(), class)).or_default() += 1;
                sigs.push((cid, di as u64 + 1, format!("{}:draw:{}", st.name(), class)));
                stats.evaluations += 1;
                let (seed_txt, used) = match tail {
                    Tail::Split(s) => (format!("(TSplit {})", cf::n(*s)), r1.used),
                    Tail::Const(c) => (format!("(TConst {})", cf::n(*c as u64)), r1.used),
                };
                draws_txt.push(format!("(mkDraw {} {} {} {} {} {})",
                    cf::list(&prefix.iter().map(|w| cf::n(*w as u64)).collect::<Vec<_>>()), seed_txt, cf::n(used), cf::b(*degenerate), r_out(&o1), r_out(&o2)));
                if b1.is_none() || b2.is_none() { break; }
            }
        }
        let txt = format!("(CPlain (mkC17 {} {} {} {} {} {} {}))", cf::n(cid), cf::list(&p.stakes.iter().map(|s| cf::n(*s)).collect::<Vec<_>>()), st.coq(), ctor_txt,
            cf::b(b1.is_some() && ctor_class == "second-instance-panic"), cf::b(bins_equal), cf::list(&draws_txt));
        let key = format!("{:?}|{:?}", p.stakes, st);
        if seen.insert(key) && !draws_txt.is_empty() { stats.distinct_nontrivial += 1; }
        if stats.samples.len() < 3 && cid % 37 == 5 { stats.samples.push(txt.chars().take(500).collect()); }
        descr.push(format!("case {}: {} k={} on {} validators ({}), constructor {}", cid, st.name(), st.k(), p.stakes.len(), p.fam, ctor_class));
        cases.push(txt);
    }
    // ---- histories: ONE instance used through both traits (single draws, quorums, clones, reset) ----
    // (a) every sample_quorum right after a completed sample_quorum / reset() / on a stateless sampler must equal
    // what a fresh instance returns for the same random words; (b) a clone taken mid-history must keep answering
    // like the original; (c) the model, which carries the decaying sampler's counters, reproduces every draw.
    let n_hist = if thorough { 400 } else { 48 };
    for i in 0..n_hist {
        let n = if i % 8 >= 3 { *rng.pick(&[10usize, 16, 33]) } else { *rng.pick(&[3usize, 4, 5, 7, 10, 16, 33]) };
        let (stakes, famname) = stakes_for(&mut rng, i % 7, n, 8);
        let stakes: Vec<u64> = if stakes.iter().map(|s| *s as u128).sum::<u128>() >= (1u128 << 63) { stakes.iter().map(|s| (*s >> 8).max(1)).collect() } else { stakes };
        let n = stakes.len() as u64;
        // three of four histories on the decaying sampler: max_samples 1 / 2 / 5/2, k well below n * cap
        let st = match i % 8 {
            0 => Strat::Stake(rng.range(1, 6)),
            1 => if n <= 16 { Strat::Turbine(*rng.pick(&[1u64, 2, 200]), rng.range(1, 4)) } else { Strat::Uniform(rng.range(1, 6)) },
            2 => Strat::AllSame(rng.below(n), rng.range(1, 4)),
            // feasible whatever the history left behind: at most 4 unreset single draws precede a quorum
            _ => { let (a, b) = *rng.pick(&[(1u64, 1u64), (1, 1), (2, 1), (5, 2)]); Strat::Decay(a, b, rng.range(1, ((n * (a / b)).saturating_sub(4) / 3).max(1))) }
        };
        let mk = || catch_unwind(AssertUnwindSafe(|| build(st, fac.infos(&stakes)))).ok();
        let Some(orig) = mk() else { continue };
        // op kinds: 0 single, 1 quorum, 2 reset, 3 clone.  Every history contains: single draws without reset,
        // then a quorum, then quorums right after it; a clone taken while counters are non-zero; a reset.
        let mut kinds: Vec<u64> = vec![0, 0];
        for _ in 0..rng.below(3) { kinds.push(0); }
        kinds.extend_from_slice(&[1, 1, 0, 3, 0, 1, 1, 2, 1]);
        for _ in 0..rng.below(5) { kinds.push(*rng.pick(&[0u64, 0, 1, 1, 2, 3])); }
        kinds.push(1); kinds.push(1);
        let cid = cases.len() as u64;
        *by_strat.entry(st.name()).or_default() += 1;
        *by_fam.entry(famname).or_default() += 1;
        let mut clone: Option<Built> = None;
        let mut ops_txt = Vec::new();
        let mut clean = true;
        let stateless = !matches!(st, Strat::Decay(..));
        for (oi, kind) in kinds.iter().enumerate() {
            let prefix: Vec<u32> = if oi % 5 == 3 { vec![0; rng.range(1, 3) as usize] } else if oi % 7 == 5 { vec![u32::MAX; 2] } else { vec![] };
            let tail = Tail::Split((rng.next() & 0xFFFF_FFFF) | 1);
            let mut r0 = ScriptRng::new(prefix.clone(), tail.clone());
            let (out, cl, fresh): (Option<Vec<u64>>, Option<Option<Vec<u64>>>, Option<Option<Vec<u64>>>) = match kind {
                0 => {
                    let mut r1 = r0.clone();
                    let o = catch_unwind(AssertUnwindSafe(|| orig.sample_single(&mut r0).map(|v| vec![v]))).ok().flatten();
                    let c = clone.as_ref().map(|c| catch_unwind(AssertUnwindSafe(|| c.sample_single(&mut r1).map(|v| vec![v]))).ok().flatten());
                    (o, c, None)
                }
                1 => {
                    let mut r1 = r0.clone();
                    let mut r2 = r0.clone();
                    let o = catch_unwind(AssertUnwindSafe(|| orig.sample(&mut r0))).ok();
                    let c = clone.as_ref().map(|c| catch_unwind(AssertUnwindSafe(|| c.sample(&mut r1))).ok());
                    let f = mk().map(|f| catch_unwind(AssertUnwindSafe(|| f.sample(&mut r2))).ok());
                    (o, c, f)
                }
                2 => { orig.reset(); if let Some(c) = &clone { c.reset(); } (None, None, None) }
                _ => { clone = orig.clone_instance(); (None, None, None) }
            };
            stats.evaluations += 1;
            let class = if *kind <= 1 && out.is_none() { if matches!(st, Strat::Decay(..)) && r0.used >= REJECTION_BUDGET { "panic-rejection-budget-exhausted" } else { "panic" } }
                else if cl.as_ref().is_some_and(|c| *c != out) { "clone-differs" }
                else if *kind == 1 && (stateless || clean) && fresh.as_ref().is_some_and(|f| *f != out) { "depends-on-instance-history" }
                else { "ok" };
            *by_class.entry(format!("{}:history:{}", st.name(), class)).or_default() += 1;
            sigs.push((cid, oi as u64 + 1, if class == "ok" { format!("{}:history:ok", st.name()) } else { format!("{}:draw:{}", st.name(), class) }));
            match kind { 0 => clean = false, 1 => clean = out.is_some(), 2 => clean = true, _ => {} }
            let tail_txt = match &tail { Tail::Split(s) => format!("(TSplit {})", cf::n(*s)), Tail::Const(c) => format!("(TConst {})", cf::n(*c as u64)) };
            let opt = |x: &Option<Option<Vec<u64>>>| match x { Some(v) => format!("(Some {})", r_out(v)), None => "None".to_string() };
            ops_txt.push(format!("(mkHop {} {} {} {} {} {} {})", cf::n(*kind), cf::list(&prefix.iter().map(|w| cf::n(*w as u64)).collect::<Vec<_>>()), tail_txt, cf::n(r0.used),
                if *kind <= 1 { r_out(&out) } else { "IPanic".to_string() }, opt(&cl), opt(&fresh)));
            if *kind <= 1 && out.is_none() { break; }
        }
        let txt = format!("(CHist (mkHist {} {} {} {}))", cf::n(cid), cf::list(&stakes.iter().map(|s| cf::n(*s)).collect::<Vec<_>>()), st.coq(), cf::list(&ops_txt));
        let key = format!("hist|{:?}|{:?}|{:?}", stakes, st, kinds);
        if seen.insert(key) { stats.distinct_nontrivial += 1; }
        descr.push(format!("case {}: history of {} calls on one {} instance (k={}) over {} validators ({}): single draws, quorums, clone, reset", cid, kinds.len(), st.name(), st.k(), n, famname));
        cases.push(txt);
    }

    stats.rule = "pinned boundary configurations (49 equal stakes with k = 49, 4 x stake 1 in 3 bins, 5 / 100 equal validators under FA1-partition with 64 seats, 2 equal validators under FA2 with k = 1, 2, 3, TurbineSampler with 1, 2, 3 validators and fanout 0, stakes beyond 2^53 and totals of 2^63 / 2^64, decay at and beyond its capacity, constant random words) plus a seeded sweep: n in {1,2,3,4,5,7,10,33,49,64,65,100,200,1000,2000} (thorough: every n <= 64 as well), stake families equal / small integers / heavy-tailed / one dominant validator / stakes on and one unit around every 1/k boundary / lamport scale / big-plus-dust, k in {1,2,3,32,49,64,200}, all nine strategies; every configuration is constructed twice independently (constructor outcome and bins must coincide and equal the model's) and each instance samples from the same scripted random source (fair xorshift32 words behind boundary prefixes: runs of 0, of 2^32-1, mixed extremes); in addition histories on ONE instance of every strategy that offers both single draws and quorums (AllSame, Uniform, StakeWeighted, Turbine through IidQuorumSampler; DecayingAcceptance with max_samples 1, 2, 5/2 and k below capacity): unreset single draws (sample / sample_info), quorums right after them and right after each other, a Clone taken while counters are non-zero (must keep answering like the original), reset(), each sample_quorum also on a freshly built instance with the same words; non-trivial = constructor succeeded and at least one committee was drawn; distinct by (stakes, strategy)".into();
    let fmt = |m: HashMap<&'static str, u64>| { let mut v: Vec<_> = m.into_iter().collect(); v.sort(); v.iter().map(|(k, c)| format!("{}={}", k, c)).collect::<Vec<_>>().join(", ") };
    stats.distribution.push(("strategies".into(), fmt(by_strat)));
    stats.distribution.push(("stake_families".into(), fmt(by_fam)));
    let mut v: Vec<_> = by_class.into_iter().collect(); v.sort();
    stats.distribution.push(("observations".into(), v.iter().map(|(k, c)| format!("{}={}", k, c)).collect::<Vec<_>>().join(", ")));
    sizes.sort();
    stats.distribution.push(("validator_counts".into(), format!("min={} median={} max={}", sizes.first().unwrap_or(&0), sizes.get(sizes.len() / 2).unwrap_or(&0), sizes.last().unwrap_or(&0))));
    CaseSet { header: "From AG Require Import Model.Sampling Oracle.C17.\n".to_string(), runner: "c17_run".to_string(), defs: Vec::new(), cases, descr, sigs, stats }
}
