//! Case generators for the pool properties.
use alpenglow::consensus::Pool as _;
use std::collections::{HashMap, HashSet};

use crate::pool::{self, CK, Keys, Op, StepOut, VK};
use crate::rng::Rng;
fn cf_n(x: u64) -> String { crate::coqfmt::n(x) }
use crate::{CaseSet, Stats, Tier};

pub struct KeyRing {
    by_n: HashMap<usize, Keys>,
}

impl KeyRing {
    pub fn new() -> Self {
        KeyRing { by_n: HashMap::new() }
    }
    pub fn get(&mut self, n: usize) -> &mut Keys {
        self.by_n.entry(n).or_insert_with(|| Keys::new(n))
    }
}

/// Stake distributions: equal, small integers, one dominant validator, total just below 2^63, exactly on / one unit
/// around the 20/40/60/80 % thresholds, lamport-scale values (beyond 2^53).
pub fn stake_family(rng: &mut Rng) -> (Vec<u64>, &'static str) {
    match rng.below(10) {
        0 => { let n = *rng.pick(&[4usize, 5, 6, 7, 10, 11]); (vec![1; n], "equal") }
        1 => { let n = rng.range(3, 9) as usize; ((0..n).map(|_| rng.range(1, 5)).collect(), "small-ints") }
        2 => { let n = rng.range(3, 7) as usize; let mut v: Vec<u64> = (0..n).map(|_| rng.range(1, 10)).collect(); let s: u64 = v.iter().sum(); v[0] = s * rng.range(1, 4); (v, "dominant") }
        3 => (vec![20, 20, 20, 20, 20], "exact-fifths"),
        4 => { let d = rng.range(0, 2); (vec![19 + d, 21 - d, 20, 20, 20], "fifths-plus-minus-one") }
        5 => { let x = *rng.pick(&[59u64, 60, 61, 79, 80, 81, 39, 40, 41]); (vec![x, 100 - x - 10, 5, 5], "single-on-threshold") }
        6 => { let base = 100_000_000_000_000_000u64 / 5; let d = rng.range(0, 2); (vec![base - 1 + d, base + 1 - d, base, base, base], "lamport-scale-fifths") }
        8 => { // total stake just below 2^63: threshold products only fit in 128 bits (twice the total still fits in
               // 64 bits: the certificate constructors add up the stake of BOTH halves for the declared stake)
               let n = rng.range(4, 6); let base = (1u64 << 63) / n - 7; ((0..n).map(|_| base - rng.below(3)).collect(), "total-near-2^63") }
        7 => { let n = rng.range(5, 12) as usize; let mut v = vec![10u64; n]; let i = rng.below(n as u64) as usize; v[i] = if rng.chance(1, 2) { 9 } else { 11 }; (v, "near-equal") }
        _ => { let n = rng.range(2, 4) as usize; ((0..n).map(|_| rng.range(1, 3)).collect(), "tiny") }
    }
}

fn total(st: &[u64]) -> u128 {
    st.iter().map(|x| *x as u128).sum()
}

#[derive(Default)]
pub struct Tally {
    pub ops: u64,
    pub verdicts: HashMap<String, u64>,
    pub events: HashMap<&'static str, u64>,
    pub families: HashMap<&'static str, u64>,
    pub panics: u64,
    pub lens: Vec<usize>,
}

impl Tally {
    pub fn add(&mut self, outs: &[StepOut]) {
        self.lens.push(outs.len());
        for o in outs {
            self.ops += 1;
            if o.panicked { self.panics += 1; }
            if !o.verdict.is_empty() { *self.verdicts.entry(o.verdict.clone()).or_default() += 1; }
            for e in &o.events {
                use alpenglow::consensus::{Cert, PoolEvent};
                let k = match e {
                    PoolEvent::ParentReady { .. } => "ParentReady",
                    PoolEvent::SafeToNotar(_) => "SafeToNotar",
                    PoolEvent::SafeToSkip(_) => "SafeToSkip",
                    PoolEvent::Standstill(..) => "Standstill",
                    PoolEvent::CertCreated(c) => match c {
                        Cert::Notar(_) => "Cert:Notar", Cert::NotarFallback(_) => "Cert:NotarFallback", Cert::Skip(_) => "Cert:Skip",
                        Cert::FastFinal(_) => "Cert:FastFinal", Cert::Final(_) => "Cert:Final",
                    },
                };
                *self.events.entry(k).or_default() += 1;
            }
        }
    }
    pub fn into_stats(self, stats: &mut Stats) {
        let mut v: Vec<_> = self.verdicts.into_iter().collect(); v.sort();
        stats.distribution.push(("verdicts".into(), v.iter().map(|(k, c)| format!("{}={}", k, c)).collect::<Vec<_>>().join(", ")));
        let mut v: Vec<_> = self.events.into_iter().collect(); v.sort();
        stats.distribution.push(("events".into(), v.iter().map(|(k, c)| format!("{}={}", k, c)).collect::<Vec<_>>().join(", ")));
        let mut v: Vec<_> = self.families.into_iter().collect(); v.sort();
        stats.distribution.push(("stake_families".into(), v.iter().map(|(k, c)| format!("{}={}", k, c)).collect::<Vec<_>>().join(", ")));
        let mut l = self.lens; l.sort();
        if !l.is_empty() { stats.distribution.push(("ops_per_case".into(), format!("min={} median={} max={}", l[0], l[l.len() / 2], l[l.len() - 1]))); }
        stats.distribution.push(("panics".into(), format!("{}", self.panics)));
    }
}

pub fn op_sig(prefix: &str, o: &StepOut) -> String {
    let op = o.op_txt.split(|c: char| c == ' ' || c == ')').next().unwrap_or("").trim_start_matches('(').to_string();
    format!("{}:{}:{}{}", prefix, op, if o.panicked { "panic" } else { o.verdict.as_str() }, if o.invalid_certs.is_empty() { "" } else { ":invalid-cert" })
}

/// A vote-driven sequence for one or two slots: pushes one or more vote classes across their
/// thresholds in a random validator order, with duplicates, conflicting votes and received
/// certificates interleaved.
pub fn votes_sequence(rng: &mut Rng, stakes: &[u64], with_certs: bool, with_blocks: bool) -> Vec<Op> {
    let n = stakes.len() as u64;
    let mut ops = Vec::new();
    let nslots = rng.range(1, 2);
    for si in 0..nslots {
        let slot = rng.range(1, 3) + si * 3;
        let hashes: Vec<u64> = (0..rng.range(1, 3)).map(|k| slot * 10 + k + 1).collect();
        if with_blocks && rng.chance(1, 2) {
            for h in &hashes { if rng.chance(2, 3) { ops.push(Op::Block { b: (slot, *h), p: (slot - 1, if slot == 1 { 0 } else { (slot - 1) * 10 + 1 }) }); } }
        }
        let phases = rng.range(1, 4);
        for _ in 0..phases {
            let kind = *rng.pick(&[VK::Notar, VK::Notar, VK::NotarFb, VK::Skip, VK::SkipFb, VK::Final]);
            let h = *rng.pick(&hashes);
            let mut order: Vec<u64> = (0..n).collect();
            rng.shuffle(&mut order);
            let upto = rng.range(1, n);
            for &v in order.iter().take(upto as usize) {
                // occasional noise before the vote
                if rng.chance(1, 8) {
                    let k2 = *rng.pick(&[VK::Notar, VK::NotarFb, VK::Skip, VK::SkipFb, VK::Final]);
                    ops.push(Op::Vote { slot, kind: k2, hash: *rng.pick(&hashes), signer: rng.below(n) });
                }
                ops.push(Op::Vote { slot, kind, hash: h, signer: v });
                if rng.chance(1, 10) { ops.push(Op::Vote { slot, kind, hash: h, signer: v }); }
                if with_certs && rng.chance(1, 12) {
                    // a received certificate from a random subset (valid only if the subset is large enough)
                    let ck = *rng.pick(&[CK::Notar, CK::NotarFb, CK::Skip, CK::FastFinal, CK::Final]);
                    let mut sub: Vec<u64> = (0..n).collect();
                    rng.shuffle(&mut sub);
                    let mut t: u128 = 0; let need = total(stakes) * if ck == CK::FastFinal { 4 } else { 3 };
                    let mut s1 = Vec::new();
                    for x in sub { if t * 5 >= need && rng.chance(2, 3) { break; } t += stakes[x as usize] as u128; s1.push(x); }
                    s1.sort();
                    let (a, b) = if (ck == CK::NotarFb || ck == CK::Skip) && s1.len() > 1 && rng.chance(1, 2) { let k = rng.range(0, s1.len() as u64) as usize; (s1[..k].to_vec(), s1[k..].to_vec()) } else { (s1, vec![]) };
                    ops.push(Op::Cert { slot, kind: ck, hash: *rng.pick(&hashes), s1: a, s2: b });
                }
            }
        }
    }
    ops
}

fn finish(prefix: &str, sel: u64, cases: Vec<String>, descr: Vec<String>, sigs: Vec<(u64, u64, String)>, stats: Stats) -> CaseSet {
    let _ = prefix;
    CaseSet {
        header: "From AG Require Import Model.Pool Oracle.PoolRun.\n".to_string(),
        runner: format!("pool_run {}%N", sel),
        defs: Vec::new(),
        cases, descr, sigs, stats,
    }
}

fn record(cid: u64, outs: &[StepOut], prefix: &str, sigs: &mut Vec<(u64, u64, String)>, stats: &mut Stats) {
    for (k, o) in outs.iter().enumerate() {
        sigs.push((cid, k as u64, op_sig(prefix, o)));
        if !o.invalid_certs.is_empty() {
            stats.harness_findings.push((cid, format!("{}:created-certificate-rejected-by-ValidatedCert:{}", prefix, o.invalid_certs[0])));
        }
        if let Some(b) = &o.bundle_problem {
            stats.harness_findings.push((cid, format!("{}:standstill-bundle:{}", prefix, b)));
        }
    }
}

pub fn gen_c03(seed: u64, tier: Tier) -> CaseSet {
    let mut rng = Rng::new(seed ^ 0xC03);
    let mut ring = KeyRing::new();
    let ncases = match tier { Tier::Quick => 240, Tier::Thorough => 6000 };
    let (mut cases, mut descr, mut sigs) = (Vec::new(), Vec::new(), Vec::new());
    let mut stats = Stats::default();
    let mut tally = Tally::default();
    let mut seen = HashSet::new();
    for cid in 0..ncases {
        let (stakes, fam) = stake_family(&mut rng);
        *tally.families.entry(fam).or_default() += 1;
        let own = rng.below(stakes.len() as u64);
        let ops = votes_sequence(&mut rng, &stakes, true, false);
        let keys = ring.get(stakes.len());
        let (txt, outs) = pool::run_case(keys, cid, &stakes, own, &ops);
        record(cid, &outs, "pool", &mut sigs, &mut stats);
        stats.evaluations += 1;
        let nontrivial = outs.iter().any(|o| o.events.iter().any(|e| matches!(e, alpenglow::consensus::PoolEvent::CertCreated(_))));
        if nontrivial && seen.insert(txt.clone()) { stats.distinct_nontrivial += 1; }
        if stats.samples.len() < 2 && nontrivial { stats.samples.push(txt.chars().take(1500).collect()); }
        descr.push(format!("case {}: stakes {:?} ({}), own {}, {} ops", cid, stakes, fam, own, outs.len()));
        tally.add(&outs);
        cases.push(txt);
    }
    stats.rule = "vote sequences over 1-2 slots and 1-3 competing blocks: each phase pushes one vote class towards its threshold in a random validator order (so every position can be the crossing one), with duplicates, conflicting votes and received certificates interleaved; stake families: equal, small ints, dominant validator, exactly on / one unit around 20/40/60/80 %, lamport-scale; a case is non-trivial when at least one certificate was created; distinct by full trace".into();
    tally.into_stats(&mut stats);
    finish("pool", 3, cases, descr, sigs, stats)
}

const C04_VALUES: [(VK, u64); 7] = [(VK::Notar, 1), (VK::Notar, 2), (VK::NotarFb, 1), (VK::NotarFb, 2), (VK::Skip, 0), (VK::SkipFb, 0), (VK::Final, 0)];

pub fn gen_c04(seed: u64, tier: Tier) -> CaseSet {
    let mut rng = Rng::new(seed ^ 0xC04);
    let mut ring = KeyRing::new();
    let (mut cases, mut descr, mut sigs) = (Vec::new(), Vec::new(), Vec::new());
    let mut stats = Stats::default();
    let mut tally = Tally::default();
    let mut seen = HashSet::new();
    let maxlen = match tier { Tier::Quick => 3, Tier::Thorough => 4 };
    // exhaustive: every sequence of <= maxlen votes of one validator over the 7 vote values
    let mut seqs: Vec<Vec<usize>> = vec![vec![]];
    let mut all: Vec<Vec<usize>> = Vec::new();
    for _ in 0..maxlen {
        let mut next = Vec::new();
        for s in &seqs { for v in 0..7 { let mut t = s.clone(); t.push(v); next.push(t); } }
        all.extend(next.iter().cloned());
        seqs = next;
    }
    let stakes = vec![1u64; 5];
    let mut cid = 0u64;
    for s in &all {
        // the validator under test is 1; validator 2 interleaves an unrelated vote; own id alternates
        let own = if cid % 2 == 0 { 0 } else { 1 };
        let mut ops = Vec::new();
        for (i, &v) in s.iter().enumerate() {
            let (k, h) = C04_VALUES[v];
            ops.push(Op::Vote { slot: 2, kind: k, hash: h, signer: 1 });
            if i == 0 { ops.push(Op::Vote { slot: 2, kind: VK::Notar, hash: 2, signer: 2 }); }
        }
        let keys = ring.get(stakes.len());
        let (txt, outs) = pool::run_case(keys, cid, &stakes, own, &ops);
        record(cid, &outs, "pool", &mut sigs, &mut stats);
        stats.evaluations += 1;
        if s.len() >= 2 && seen.insert(txt.clone()) { stats.distinct_nontrivial += 1; }
        if stats.samples.len() < 2 && s.len() == 3 { stats.samples.push(txt.chars().take(1200).collect()); }
        descr.push(format!("case {}: exhaustive vote-value sequence {:?} of validator 1, own {}", cid, s, own));
        tally.add(&outs);
        cases.push(txt);
        cid += 1;
    }
    let exhaustive_cases = cid;
    // random multi-validator sequences (totals are revealed through the certificates created)
    let nrand = match tier { Tier::Quick => 120, Tier::Thorough => 3000 };
    for _ in 0..nrand {
        let (stakes, fam) = stake_family(&mut rng);
        *tally.families.entry(fam).or_default() += 1;
        let own = rng.below(stakes.len() as u64);
        let ops = votes_sequence(&mut rng, &stakes, false, false);
        let keys = ring.get(stakes.len());
        let (txt, outs) = pool::run_case(keys, cid, &stakes, own, &ops);
        record(cid, &outs, "pool", &mut sigs, &mut stats);
        stats.evaluations += 1;
        if seen.insert(txt.clone()) { stats.distinct_nontrivial += 1; }
        descr.push(format!("case {}: random sequence, stakes {:?} ({}), own {}, {} ops", cid, stakes, fam, own, outs.len()));
        tally.add(&outs);
        cases.push(txt);
        cid += 1;
    }
    stats.rule = format!("EXHAUSTIVE: all {} sequences of <= {} votes of one validator over the 7 vote values {{notar,notar-fallback}}x{{h1,h2}}, skip, skip-fallback, final (interleaved with another validator's vote, own id alternating), plus {} random multi-validator sequences; non-trivial = at least two votes of the validator under test; distinct by full trace", exhaustive_cases, maxlen, nrand);
    stats.distribution.push(("exhaustive_sequences".into(), format!("{}", exhaustive_cases)));
    tally.into_stats(&mut stats);
    finish("pool", 4, cases, descr, sigs, stats)
}

// ---------------------------------------------------------------------------------------------
// C06: safe-to-notar / safe-to-skip.  One slot with competing blocks whose parent certificate,
// block registrations, other validators' votes and the own vote arrive in every relative order.
fn quorum_subset(rng: &mut Rng, stakes: &[u64], num: u128, den: u128) -> Vec<u64> {
    let n = stakes.len() as u64;
    let mut sub: Vec<u64> = (0..n).collect();
    rng.shuffle(&mut sub);
    let mut t: u128 = 0;
    let mut out = Vec::new();
    for x in sub {
        if t * den >= total(stakes) * num { break; }
        t += stakes[x as usize] as u128;
        out.push(x);
    }
    out.sort();
    out
}

pub fn c06_scenario(rng: &mut Rng, stakes: &[u64], own: u64) -> Vec<Op> {
    let n = stakes.len() as u64;
    let s = rng.range(2, 6);
    let parent = (s - 1, (s - 1) * 10 + 1);
    // one scenario in eight: the votes of the others are split between two competing blocks and the OWN vote - a notar
    // vote for a third block - arrives last: it is the missing condition for both competitors at once
    let own_last_for_third = rng.chance(1, 8);
    let nblocks = if own_last_for_third { 3 } else { rng.range(1, 3) };
    let blocks: Vec<(u64, u64)> = (0..nblocks).map(|k| (s, s * 10 + k + 1)).collect();
    // the trigger set: every element is one group of operations; groups are shuffled
    let mut groups: Vec<Vec<Op>> = Vec::new();
    // parent certificate: by votes or received (Notar / NotarFb / FastFinal), sometimes absent
    match rng.below(7) {
        0 => {}
        1 | 2 => { let q = quorum_subset(rng, stakes, 3, 5); groups.push(q.iter().map(|&v| Op::Vote { slot: parent.0, kind: VK::Notar, hash: parent.1, signer: v }).collect()); }
        3 => { let q = quorum_subset(rng, stakes, 3, 5); groups.push(vec![Op::Cert { slot: parent.0, kind: CK::Notar, hash: parent.1, s1: q, s2: vec![] }]); }
        4 => { let q = quorum_subset(rng, stakes, 3, 5); let k = rng.range(0, q.len() as u64) as usize; groups.push(vec![Op::Cert { slot: parent.0, kind: CK::NotarFb, hash: parent.1, s1: q[..k].to_vec(), s2: q[k..].to_vec() }]); }
        5 => { let q = quorum_subset(rng, stakes, 4, 5); groups.push(vec![Op::Cert { slot: parent.0, kind: CK::FastFinal, hash: parent.1, s1: q, s2: vec![] }]); }
        _ => { let q = quorum_subset(rng, stakes, 3, 5); let k = rng.range(0, q.len() as u64) as usize;
               let mut g: Vec<Op> = q[..k].iter().map(|&v| Op::Vote { slot: parent.0, kind: VK::Notar, hash: parent.1, signer: v }).collect();
               g.extend(q[k..].iter().map(|&v| Op::Vote { slot: parent.0, kind: VK::NotarFb, hash: parent.1, signer: v }));
               groups.push(g); }
    }
    // a further certificate of another kind for the parent (e.g. late notar votes lifting a notarized parent to
    // fast-finalized): the parent is announced as certified a second time
    if rng.chance(1, 4) {
        match rng.below(3) {
            0 => { let q = quorum_subset(rng, stakes, 4, 5); groups.push(vec![Op::Cert { slot: parent.0, kind: CK::FastFinal, hash: parent.1, s1: q, s2: vec![] }]); }
            1 => { let q = quorum_subset(rng, stakes, 3, 5); groups.push(vec![Op::Cert { slot: parent.0, kind: CK::Notar, hash: parent.1, s1: q, s2: vec![] }]); }
            _ => { let q = quorum_subset(rng, stakes, 3, 5); let k = rng.range(0, q.len() as u64) as usize; groups.push(vec![Op::Cert { slot: parent.0, kind: CK::NotarFb, hash: parent.1, s1: q[..k].to_vec(), s2: q[k..].to_vec() }]); }
        }
    }
    // the OTHER block of the parent's slot (an equivocating leader's second block, some children build on it) is
    // notar-fallback certified as well: two certified blocks in one slot, in either order
    if rng.chance(1, 5) {
        let q = quorum_subset(rng, stakes, 3, 5); let k = rng.range(0, q.len() as u64) as usize;
        groups.push(vec![Op::Cert { slot: parent.0, kind: CK::NotarFb, hash: (s - 1) * 10 + 2, s1: q[..k].to_vec(), s2: q[k..].to_vec() }]);
    }
    // a finalization GAP: a later slot is fast-finalized while its ancestry is unknown - the slot under test stays
    // undecided and unpruned below the finalized slot, its signals are still due
    if rng.chance(1, 5) {
        let later = s + rng.range(1, 3);
        let q = quorum_subset(rng, stakes, 4, 5);
        groups.push(vec![Op::Cert { slot: later, kind: CK::FastFinal, hash: later * 10 + 7, s1: q, s2: vec![] }]);
    }
    // block registrations (some blocks stay unknown -> repair request instead of the signal)
    for b in &blocks {
        if rng.chance(5, 6) {
            let p = if rng.chance(3, 4) { parent } else { (s - 1, (s - 1) * 10 + 2) };
            groups.push(vec![Op::Block { b: *b, p }]);
        }
    }
    // votes of the other validators: each picks notar(some block) / skip / nothing
    let mut others: Vec<u64> = (0..n).filter(|v| *v != own).collect();
    rng.shuffle(&mut others);
    for (pos, v) in others.into_iter().enumerate() {
        if own_last_for_third {
            let r = rng.below(8);
            let op = if r < 6 { Op::Vote { slot: s, kind: VK::Notar, hash: blocks[pos % 2].1, signer: v } } else if r < 7 { Op::Vote { slot: s, kind: VK::Skip, hash: 0, signer: v } } else { continue };
            groups.push(vec![op]);
            continue;
        }
        let r = rng.below(10);
        let op = if r < 5 { Op::Vote { slot: s, kind: VK::Notar, hash: rng.pick(&blocks).1, signer: v } }
                 else if r < 8 { Op::Vote { slot: s, kind: VK::Skip, hash: 0, signer: v } }
                 else { continue };
        let mut g = vec![op];
        if rng.chance(1, 6) { g.push(Op::Vote { slot: s, kind: VK::SkipFb, hash: 0, signer: v }); }
        if rng.chance(1, 8) { g.push(Op::Vote { slot: s, kind: VK::NotarFb, hash: rng.pick(&blocks).1, signer: v }); }
        groups.push(g);
    }
    // own vote
    if !own_last_for_third {
        match rng.below(6) {
            0 => {}
            1 | 2 => groups.push(vec![Op::Vote { slot: s, kind: VK::Skip, hash: 0, signer: own }]),
            _ => groups.push(vec![Op::Vote { slot: s, kind: VK::Notar, hash: rng.pick(&blocks).1, signer: own }]),
        }
    }
    rng.shuffle(&mut groups);
    if own_last_for_third { groups.push(vec![Op::Vote { slot: s, kind: VK::Notar, hash: blocks[2].1, signer: own }]); }
    groups.into_iter().flatten().collect()
}

pub fn gen_c06(seed: u64, tier: Tier) -> CaseSet {
    let mut rng = Rng::new(seed ^ 0xC06);
    let mut ring = KeyRing::new();
    let ncases = match tier { Tier::Quick => 600, Tier::Thorough => 12000 };
    let (mut cases, mut descr, mut sigs) = (Vec::new(), Vec::new(), Vec::new());
    let mut stats = Stats::default();
    let mut tally = Tally::default();
    let mut seen = HashSet::new();
    for cid in 0..ncases {
        let (stakes, fam) = stake_family(&mut rng);
        *tally.families.entry(fam).or_default() += 1;
        let own = rng.below(stakes.len() as u64);
        let ops = c06_scenario(&mut rng, &stakes, own);
        let keys = ring.get(stakes.len());
        let (txt, outs) = pool::run_case(keys, cid, &stakes, own, &ops);
        record(cid, &outs, "pool", &mut sigs, &mut stats);
        stats.evaluations += 1;
        let nontrivial = outs.iter().any(|o| o.events.iter().any(|e| matches!(e, alpenglow::consensus::PoolEvent::SafeToNotar(_) | alpenglow::consensus::PoolEvent::SafeToSkip(_))));
        if nontrivial && seen.insert(txt.clone()) { stats.distinct_nontrivial += 1; }
        if stats.samples.len() < 2 && nontrivial { stats.samples.push(txt.chars().take(1500).collect()); }
        descr.push(format!("case {}: stakes {:?} ({}), own {}, {} ops", cid, stakes, fam, own, outs.len()));
        tally.add(&outs);
        cases.push(txt);
    }
    stats.rule = "one slot with 1-3 competing blocks: parent certificate (by notar votes, by mixed notar/notar-fallback votes, or received Notar / NotarFallback / FastFinal certificate, or absent; in a quarter of the cases a further certificate of another kind for the same parent; in a fifth the other block of the parent's slot notar-fallback certified too; in a fifth a LATER slot fast-finalized with unknown ancestry, so that the slot under test lies undecided below the finalized slot), block registrations (some missing, some with an uncertified parent), other validators' notar/skip/fallback votes and the own vote, shuffled as groups so that each can arrive last (one scenario in eight: the others split between two competitors, the own notar vote for a third block last); non-trivial = at least one SafeToNotar/SafeToSkip raised; distinct by full trace".into();
    tally.into_stats(&mut stats);
    finish("pool", 6, cases, descr, sigs, stats)
}

// ---------------------------------------------------------------------------------------------
// C07 / C08 / C18: consistent multi-window histories.  A ground-truth chain decides the fate of
// every slot (chain block or skipped); finalized chain blocks (fast or slow), certificates,
// competing ("orphan") certified blocks in non-finalized slots and block-parent registrations are
// delivered in arbitrary order (certificates as received certificates or as the votes forming
// them), so that final-before-notar, children-before-parents, gaps and certificates for already
// decided slots all occur.
pub struct World {
    pub ops: Vec<Op>,
    pub max_slot: u64,
}

pub fn world(rng: &mut Rng, stakes: &[u64], own: u64, with_waits: bool, with_old_votes: bool, standstill: bool) -> World {
    // certificates for a sibling of a DIRECTLY finalized block cannot exist with < 20 % Byzantine stake: only the
    // parent-ready histories (C07, whose specification is about marks, not about safety) include them
    let unsafe_siblings = with_waits;
    let n = stakes.len() as u64;
    let nslots = rng.range(4, 14);
    // fate per slot: Some(hash) = chain block, None = skipped in the chain
    let mut chain: Vec<Option<u64>> = vec![Some(0)];
    for s in 1..=nslots {
        let skipped = match rng.below(10) { 0..=2 => true, _ => false };
        // skipped windows: sometimes skip a whole run
        if skipped { chain.push(None); } else { chain.push(Some(s * 10 + 1)); }
    }
    if rng.chance(1, 5) {
        // one fully skipped window
        let w = rng.range(0, nslots / SPW) * SPW;
        for s in w.max(1)..(w + SPW).min(nslots + 1) { chain[s as usize] = None; }
    }
    let parent_of = |chain: &Vec<Option<u64>>, s: u64| -> (u64, u64) {
        let mut p = s - 1;
        loop { if let Some(h) = chain[p as usize] { return (p, h); } p -= 1; }
    };
    // finalized chain blocks
    let mut groups: Vec<Vec<Op>> = Vec::new();
    let mut highest_final = 0u64;
    // chain slots that are not finalized in the ground truth AND carry a skip certificate or a certified sibling:
    // they must never become finalized (no late notar votes there)
    let mut never_final: Vec<u64> = Vec::new();
    let as_votes = |rng: &mut Rng, slot: u64, kind: VK, hash: u64, q: &[u64]| -> Vec<Op> {
        let mut q = q.to_vec(); rng.shuffle(&mut q);
        q.iter().map(|&v| Op::Vote { slot, kind, hash, signer: v }).collect()
    };
    for s in 1..=nslots {
        match chain[s as usize] {
            Some(h) => {
                let fin = rng.below(10);
                if fin < 2 {
                    // fast finalization
                    let q = quorum_subset(rng, stakes, 4, 5);
                    if rng.chance(1, 2) { groups.push(vec![Op::Cert { slot: s, kind: CK::FastFinal, hash: h, s1: q, s2: vec![] }]); }
                    else { groups.push(as_votes(rng, s, VK::Notar, h, &q)); }
                    highest_final = s;
                    if rng.chance(1, 3) { let q = quorum_subset(rng, stakes, 3, 5); groups.push(vec![Op::Cert { slot: s, kind: CK::Final, hash: 0, s1: q, s2: vec![] }]); }
                } else if fin < 5 {
                    // slow finalization: notar + final
                    let q = quorum_subset(rng, stakes, 3, 5);
                    if rng.chance(1, 2) { groups.push(vec![Op::Cert { slot: s, kind: CK::Notar, hash: h, s1: q, s2: vec![] }]); } else { groups.push(as_votes(rng, s, VK::Notar, h, &q)); }
                    let q = quorum_subset(rng, stakes, 3, 5);
                    if rng.chance(1, 2) { groups.push(vec![Op::Cert { slot: s, kind: CK::Final, hash: 0, s1: q, s2: vec![] }]); } else { groups.push(as_votes(rng, s, VK::Final, 0, &q)); }
                    highest_final = s;
                } else if fin < 9 {
                    // notarized (or notar-fallback certified) only
                    let q = quorum_subset(rng, stakes, 3, 5);
                    if rng.chance(2, 3) { groups.push(vec![Op::Cert { slot: s, kind: CK::Notar, hash: h, s1: q, s2: vec![] }]); }
                    else { let k = rng.range(0, q.len() as u64) as usize; groups.push(vec![Op::Cert { slot: s, kind: CK::NotarFb, hash: h, s1: q[..k].to_vec(), s2: q[k..].to_vec() }]); }
                    // a notarized, not finalized slot may additionally be skip-certified
                    if rng.chance(1, 6) { let q = quorum_subset(rng, stakes, 3, 5); groups.push(vec![Op::Cert { slot: s, kind: CK::Skip, hash: 0, s1: vec![], s2: q }]); never_final.push(s); }
                }
                if rng.chance(5, 6) { groups.push(vec![Op::Block { b: (s, h), p: parent_of(&chain, s) }]); }
                // a sibling of the chain block (an equivocating leader's other block): registered with the same or an
                // older parent, sometimes notar-fallback certified (never notarized or finalized - that would
                // contradict the ground truth of a safe history), whatever the fate of the chain block
                if rng.chance(1, 6) {
                    let h2 = s * 10 + 3;
                    let par = if rng.chance(2, 3) || s < 2 { parent_of(&chain, s) } else { parent_of(&chain, s - 1) };
                    if rng.chance(3, 4) { groups.push(vec![Op::Block { b: (s, h2), p: par }]); }
                    if rng.chance(1, 2) && (unsafe_siblings || fin >= 5) {
                        let q = quorum_subset(rng, stakes, 3, 5);
                        let k = rng.range(0, q.len() as u64) as usize;
                        groups.push(vec![Op::Cert { slot: s, kind: CK::NotarFb, hash: h2, s1: q[..k].to_vec(), s2: q[k..].to_vec() }]);
                        if fin >= 5 { never_final.push(s); }
                    }
                }
            }
            None => {
                let orphan = rng.chance(1, 4);
                // a slot skipped by the chain may carry a competing notarized block and then often has no
                // explicit skip certificate (it is skipped only as a consequence of a later finalization)
                if (!orphan && rng.chance(5, 6)) || (orphan && rng.chance(1, 2)) {
                    let q = quorum_subset(rng, stakes, 3, 5);
                    if rng.chance(1, 2) { let k = rng.range(0, q.len() as u64) as usize; groups.push(vec![Op::Cert { slot: s, kind: CK::Skip, hash: 0, s1: q[..k].to_vec(), s2: q[k..].to_vec() }]); }
                    else { groups.push(as_votes(rng, s, VK::Skip, 0, &q)); }
                }
                // competing certified block in a skipped slot
                if orphan {
                    let h = s * 10 + 2;
                    let q = quorum_subset(rng, stakes, 3, 5);
                    let k = rng.range(0, q.len() as u64) as usize;
                    if rng.chance(1, 2) { groups.push(vec![Op::Cert { slot: s, kind: CK::Notar, hash: h, s1: q.clone(), s2: vec![] }]); }
                    else { groups.push(vec![Op::Cert { slot: s, kind: CK::NotarFb, hash: h, s1: q[..k].to_vec(), s2: q[k..].to_vec() }]); }
                    if rng.chance(1, 2) { groups.push(vec![Op::Block { b: (s, h), p: parent_of(&chain, s) }]); }
                }
            }
        }
    }
    // skipped slots below a finalized descendant must not carry the skipped fate inconsistently:
    // (a slot skipped in the chain below the highest finalized block is implicitly skipped: consistent)
    let _ = highest_final;
    if with_waits {
        let mut w = 0;
        while w <= nslots + SPW { if rng.chance(1, 3) { groups.push(vec![if rng.chance(1, 4) { Op::WaitAbandon(w) } else { Op::Wait(w) }]); } w += SPW; }
    }
    if with_old_votes {
        // late votes for arbitrary (possibly already decided) slots
        for _ in 0..rng.range(1, 6) {
            // (only votes consistent with the slot's fate, so that a heavy validator's late vote cannot
            //  create a certificate that contradicts the ground truth; in particular no late notar vote for a
            //  non-finalized block whose slot is also skip-certified or has a certified sibling: with a dominant
            //  validator that single vote would fast-finalize it, which needs more than 20 % Byzantine stake)
            let s = rng.range(1, nslots);
            if never_final.contains(&s) { continue; }
            let (k, h) = match chain[s as usize] { Some(h) => (VK::Notar, h), None => (*rng.pick(&[VK::Skip, VK::SkipFb]), 0) };
            groups.push(vec![Op::Vote { slot: s, kind: k, hash: h, signer: rng.below(n) }]);
        }
    }
    rng.shuffle(&mut groups);
    // adversarial arrival orders on top of the uniform shuffle: (a) every skip certificate / skip vote first,
    // then everything else from the highest slot down (old blocks are certified AFTER the windows behind them
    // were skipped); (b) strictly descending slots; (c) strictly ascending slots
    let slot_of = |g: &Vec<Op>| -> u64 { g.iter().map(|o| match o { Op::Vote { slot, .. } | Op::Cert { slot, .. } => *slot, Op::Block { b, .. } => b.0, _ => 0 }).max().unwrap_or(0) };
    let is_skip = |g: &Vec<Op>| -> bool { g.iter().all(|o| matches!(o, Op::Vote { kind: VK::Skip | VK::SkipFb, .. } | Op::Cert { kind: CK::Skip, .. })) };
    match rng.below(12) {
        0 | 1 => { groups.sort_by_key(|g| (if is_skip(g) { 0u64 } else { 1 }, u64::MAX - slot_of(g))); }
        2 => { groups.sort_by_key(|g| u64::MAX - slot_of(g)); }
        3 => { groups.sort_by_key(|g| slot_of(g)); }
        _ => {}
    }
    let mut ops: Vec<Op> = Vec::new();
    for g in groups {
        ops.extend(g);
        if standstill && rng.chance(1, 5) { ops.push(Op::Standstill); }
    }
    if standstill {
        // a third of the recovery histories: the node's OWN notar-fallback votes for two competing blocks of one slot
        // beyond the chain (both became safe-to-notar after it skipped the slot) - the bundle must carry both.
        // Drawn from a forked generator so that the rest of the history does not depend on this addition.
        let mut r2 = Rng::new(0xC18F_0000 ^ (nslots << 8) ^ stakes.iter().fold(0u64, |a, x| a.wrapping_mul(31).wrapping_add(*x)) ^ ((ops.len() as u64) << 24));
        if r2.chance(1, 3) {
            let s = nslots + 1 + r2.below(2);
            ops.push(Op::Vote { slot: s, kind: VK::NotarFb, hash: s * 10 + 8, signer: own });
            if r2.chance(1, 2) { ops.push(Op::Standstill); }
            ops.push(Op::Vote { slot: s, kind: VK::NotarFb, hash: s * 10 + 9, signer: own });
        }
        ops.push(Op::Standstill);
    }
    World { ops, max_slot: nslots }
}
const SPW: u64 = pool::SLOTS_PER_WINDOW;

/// Scripted histories for C08 (one in every 25 cases): a slot that holds a notarization certificate for one
/// block while the finalized chain continues from ANOTHER block of that slot (certified by notar-fallback
/// votes only).  Variant A is the safe execution found by the C01 composition proof (stakes [41, 40, 19],
/// 19 % Byzantine): descendant (4,41) is fast-finalized, (1,11) becomes implicitly finalized although slot 1
/// is notarized with (1,12) - the pinned tree panicked there ("consensus safety violation").  It ends with a
/// late re-delivery of the notarization for (1,12).  Variant B meets the same conflict in mark_notarized: the
/// notarization certificate for (2,22) arrives after (2,21) has been implicitly finalized and while slot 2
/// is still held (slot 1 is undecided).
fn notar_other_block_world(rng: &mut Rng) -> (Vec<u64>, u64, World) {
    let stakes = vec![41u64, 40, 19];
    let v = |slot: u64, kind: VK, hash: u64, signer: u64| Op::Vote { slot, kind, hash, signer };
    let b = |b: (u64, u64), p: (u64, u64)| Op::Block { b, p };
    let mut ops: Vec<Op> = Vec::new();
    if rng.chance(2, 3) {
        ops.extend([b((1, 11), (0, 0)), b((1, 12), (0, 0)),
                    v(1, VK::Notar, 12, 0), v(1, VK::Notar, 11, 1), v(1, VK::Notar, 12, 2), v(1, VK::NotarFb, 11, 0),
                    b((2, 21), (1, 11)),
                    v(2, VK::Skip, 0, 0), v(2, VK::Notar, 21, 1), v(2, VK::Notar, 21, 2), v(2, VK::NotarFb, 21, 0),
                    v(3, VK::Skip, 0, 0), v(3, VK::Skip, 0, 1), v(3, VK::Skip, 0, 2),
                    b((4, 41), (2, 21))]);
        let mut last = vec![v(4, VK::Notar, 41, 0), v(4, VK::Notar, 41, 1)];
        rng.shuffle(&mut last);
        ops.extend(last);
        // late re-delivery for the decided slot 1
        match rng.below(3) {
            0 => ops.push(Op::Cert { slot: 1, kind: CK::Notar, hash: 12, s1: vec![0, 2], s2: vec![] }),
            1 => ops.push(v(1, VK::Notar, 12, 0)),
            _ => ops.push(Op::Cert { slot: 1, kind: CK::NotarFb, hash: 11, s1: vec![1], s2: vec![0] }),
        }
        (stakes, 0, World { ops, max_slot: 4 })
    } else {
        ops.extend([b((3, 31), (2, 21)),
                    Op::Cert { slot: 3, kind: CK::FastFinal, hash: 31, s1: vec![0, 1], s2: vec![] },
                    Op::Cert { slot: 2, kind: CK::Notar, hash: 22, s1: vec![0, 2], s2: vec![] },
                    b((2, 21), (1, 11)),
                    Op::Cert { slot: 2, kind: CK::Notar, hash: 22, s1: vec![0, 2], s2: vec![] }]);
        (stakes, rng.below(3), World { ops, max_slot: 3 })
    }
}

fn gen_world(seed: u64, tier: Tier, sel: u64, salt: u64, nq: usize, nt: usize, waits: bool, old: bool, standstill: bool, rule: &str) -> CaseSet {
    let mut rng = Rng::new(seed ^ salt);
    let mut ring = KeyRing::new();
    let ncases = match tier { Tier::Quick => nq, Tier::Thorough => nt };
    let (mut cases, mut descr, mut sigs) = (Vec::new(), Vec::new(), Vec::new());
    let mut stats = Stats::default();
    let mut tally = Tally::default();
    let mut seen = HashSet::new();
    for cid in 0..ncases as u64 {
        let (stakes, fam, own, w) = if sel == 8 && cid % 25 == 24 {
            let (stakes, own, w) = notar_other_block_world(&mut rng);
            (stakes, "scripted:notarized-block-off-the-chain", own, w)
        } else {
            let (stakes, fam) = stake_family(&mut rng);
            let own = rng.below(stakes.len() as u64);
            let w = world(&mut rng, &stakes, own, waits, old, standstill);
            (stakes, fam, own, w)
        };
        *tally.families.entry(fam).or_default() += 1;
        let keys = ring.get(stakes.len());
        let (txt, outs) = pool::run_case(keys, cid, &stakes, own, &w.ops);
        record(cid, &outs, "pool", &mut sigs, &mut stats);
        stats.evaluations += 1;
        let nontrivial = outs.last().map(|o| o.finalized > 0 || o.parents_ready.iter().any(|(s, l)| *s > 0 && !l.is_empty())).unwrap_or(false);
        if nontrivial && seen.insert(txt.clone()) { stats.distinct_nontrivial += 1; }
        if stats.samples.len() < 1 && nontrivial { stats.samples.push(txt.chars().take(2500).collect()); }
        descr.push(format!("case {}: stakes {:?} ({}), own {}, {} slots, {} ops, final slot {} watermark {}", cid, stakes, fam, own, w.max_slot, outs.len(), outs.last().map(|o| o.finalized).unwrap_or(0), outs.last().map(|o| o.first_unpruned).unwrap_or(0)));
        tally.add(&outs);
        cases.push(txt);
    }
    stats.rule = rule.to_string();
    tally.into_stats(&mut stats);
    finish("pool", sel, cases, descr, sigs, stats)
}

const WORLD_RULE: &str = "consistent multi-window histories (4-14 slots): a ground-truth chain fixes each slot's fate (chain block or skipped, incl. whole skipped windows); chain blocks are fast-finalized, slow-finalized (notar + final), only notarized / notar-fallback certified (sometimes additionally skip-certified) or uncertified; skipped slots get skip certificates and sometimes a competing certified block; chain slots sometimes get a sibling block (registered, sometimes notar-fallback certified); block-parent registrations for most blocks; parent-ready waiters (C07; a quarter of them abandoned at once: receiver dropped); every certificate is delivered either as a received certificate or as the votes forming it; all groups shuffled (final before notar, children before parents, gaps, certificates for already decided slots), a third of the histories additionally in adversarial orders (all skips first then old blocks from the highest slot down; strictly descending; strictly ascending)";

pub fn gen_c07(seed: u64, tier: Tier) -> CaseSet {
    gen_world(seed, tier, 7, 0xC07, 500, 10000, true, false, false,
              &format!("{}; plus wait_for_parent_ready registrations at random points; non-trivial = something was finalized or a window beyond genesis got a ready parent; distinct by full trace", WORLD_RULE))
}
pub fn gen_c08(seed: u64, tier: Tier) -> CaseSet {
    gen_world(seed, tier, 8, 0xC08, 500, 10000, false, true, false,
              &format!("{}; plus late votes for arbitrary (possibly decided) slots; every 25th case is a scripted history in which a slot is notarized with one block while the finalized chain continues from another, notar-fallback certified block of that slot (the safe execution with stakes [41,40,19] on which the pinned finality tracker panicked, and the mark_notarized counterpart), followed by a late re-delivery for the decided slot; non-trivial as C07", WORLD_RULE))
}

/// A sender whose finalized slot lies beyond the receiver's admission window (finalized + 2 * SLOTS_PER_EPOCH):
/// the bundle of the real pool is replayed into a fresh real pool (driven directly, no model evaluation: the
/// model-level statement is C18_bundle_refused_beyond_window).
fn far_ahead_bundle_probe() -> Option<String> {
    let mut ring = KeyRing::new();
    let stakes = [1u64, 1, 1];
    let keys = ring.get(stakes.len());
    let epoch = keys.epoch(&stakes, 0);
    let mut r = pool::Runner::new(epoch);
    r.slot_cap = 64;
    let two_epochs = 2 * alpenglow::types::SLOTS_PER_EPOCH;
    // finalize a slot just inside the fresh window, then one far beyond it
    let ops = [
        Op::Cert { slot: two_epochs - 1, kind: CK::FastFinal, hash: 7, s1: vec![0, 1, 2], s2: vec![] },
        Op::Cert { slot: two_epochs + 4000, kind: CK::FastFinal, hash: 9, s1: vec![0, 1, 2], s2: vec![] },
        Op::Standstill,
    ];
    let mut problem = None;
    for op in &ops {
        let o = r.step(keys, op);
        if o.panicked { return Some("pool panicked in the far-ahead probe".into()); }
        if let Some(b) = o.bundle_problem { problem = Some(b); }
    }
    if r.pool.finalized_slot().inner() != two_epochs + 4000 { return Some(format!("probe did not reach the far slot (finalized {})", r.pool.finalized_slot().inner())); }
    problem
}

pub fn gen_c18(seed: u64, tier: Tier) -> CaseSet {
    let mut cs = gen_world(seed, tier, 18, 0xC18, 300, 6000, false, true, true,
              &format!("{}; standstill recovery is triggered after random prefixes and at the end (also on pools that finalized nothing beyond genesis); each bundle is validated element-wise with ValidatedCert/ValidatedVote::try_new and replayed into a second real pool; plus one probe on the real pool with the sender's finalized slot beyond the receiver's two-epoch admission window; non-trivial as C07", WORLD_RULE));
    // the probe gets a (trivial) case of its own so that its finding has its own replay file and description
    let pcid = cs.cases.len() as u64;
    cs.cases.push(format!("(PCase {} [1%N; 1%N; 1%N] 0%N [])", cf_n(pcid)));
    cs.descr.push(format!("case {}: far-ahead standstill probe on the real pool: 3 equal validators; received FastFinal certificates for slot 2*SLOTS_PER_EPOCH-1 and 2*SLOTS_PER_EPOCH+4000 (both admitted, finalized slot = the latter); recover_from_standstill; the bundle is replayed into a fresh real pool", pcid));
    match far_ahead_bundle_probe() {
        Some(p) => { cs.stats.harness_findings.push((pcid, format!("pool:standstill-bundle:beyond-two-epoch-window:{}", p.split(" instead").next().unwrap_or("").replace(|c: char| c.is_ascii_digit(), "N")))); cs.stats.distribution.push(("far_ahead_bundle_probe".into(), p)); }
        None => cs.stats.distribution.push(("far_ahead_bundle_probe".into(), "fresh pool reached the sender's finalized slot".into())),
    }
    cs
}
