//! C12: shred authentication.  Real shreds (RegularShredder, fresh leader key) and the mutation
//! catalogue on the wire level; verdicts of ValidatedShred::try_new with / without a cached commitment
//! are rendered for Model/ShredAuth.v (SHA-256 Merkle path evaluated inside Coq).
use std::collections::{HashMap, HashSet};
use std::panic::{AssertUnwindSafe, catch_unwind};

use alpenglow::crypto::merkle::MerkleRoot;
use alpenglow::crypto::signature::SecretKey;
use alpenglow::shredder::{RegularShredder, Shred, ShredValidationError, Shredder, SliceCommitment, ValidatedShred};
use alpenglow::types::{Slice, SliceIndex, Slot};

use crate::coqfmt as cf;
use crate::pool::hash_of;
use crate::rng::Rng;
use crate::{CaseSet, Stats, Tier};

fn slice_index(i: u64) -> SliceIndex {
    wincode::deserialize::<SliceIndex>(&i.to_le_bytes()).expect("slice index in range")
}

struct Parsed { tag: u32, slot: u64, slice: u64, last: u8, index: u64, data: Vec<u8>, sig: Vec<u8>, path: Vec<Vec<u8>> }

fn parse(b: &[u8]) -> Option<Parsed> {
    let u64at = |o: usize| -> Option<u64> { Some(u64::from_le_bytes(b.get(o..o + 8)?.try_into().ok()?)) };
    let tag = u32::from_le_bytes(b.get(0..4)?.try_into().ok()?);
    let slot = u64at(4)?; let slice = u64at(12)?; let last = *b.get(20)?; let index = u64at(21)?;
    let dl = u64at(29)? as usize;
    let data = b.get(37..37 + dl)?.to_vec();
    let o = 37 + dl;
    let sig = b.get(o..o + 64)?.to_vec();
    let pl = u64at(o + 64)? as usize;
    let mut path = Vec::new();
    for k in 0..pl { path.push(b.get(o + 72 + 32 * k..o + 72 + 32 * (k + 1))?.to_vec()); }
    if b.len() != o + 72 + 32 * pl { return None; }
    Some(Parsed { tag, slot, slice, last, index, data, sig, path })
}

fn unparse(p: &Parsed) -> Vec<u8> {
    let mut b = Vec::new();
    b.extend_from_slice(&p.tag.to_le_bytes()); b.extend_from_slice(&p.slot.to_le_bytes()); b.extend_from_slice(&p.slice.to_le_bytes());
    b.push(p.last); b.extend_from_slice(&p.index.to_le_bytes()); b.extend_from_slice(&(p.data.len() as u64).to_le_bytes());
    b.extend_from_slice(&p.data); b.extend_from_slice(&p.sig); b.extend_from_slice(&(p.path.len() as u64).to_le_bytes());
    for h in &p.path { b.extend_from_slice(h); }
    b
}

fn commitment_bytes(slot: u64, slice: u64, last: bool, root: &[u8]) -> Vec<u8> {
    let mut b = Vec::new(); b.extend_from_slice(&slot.to_le_bytes()); b.extend_from_slice(&slice.to_le_bytes()); b.push(last as u8); b.extend_from_slice(root); b
}

pub fn gen_c12(seed: u64, tier: Tier) -> CaseSet {
    let mut rng = Rng::new(seed ^ 0xC12);
    let nbase = match tier { Tier::Quick => 24, Tier::Thorough => 600 };
    let (mut cases, mut descr, mut sigs) = (Vec::new(), Vec::new(), Vec::new());
    let mut stats = Stats::default();
    let mut it = cf::Interner::default();
    let mut seen = HashSet::new();
    let mut mutc: HashMap<&'static str, u64> = Default::default();
    let mut verdc: HashMap<String, u64> = Default::default();
    let mut rk = rand::rng();
    let mut cid = 0u64;
    let mut path_only_checked = 0u64;
    for _ in 0..nbase {
        let leader = SecretKey::new(&mut rk);
        let other = SecretKey::new(&mut rk);
        let pk = leader.to_pk();
        let slot = rng.range(1, 50);
        // two slices of the same leader and slot (the second one for transplanted signatures / cached commitments)
        let mk = |rng: &mut Rng, idx: u64, last: bool, sk: &SecretKey| -> (Vec<ValidatedShred>, Vec<u8>) {
            let dl = rng.range(0, 200) as usize;
            let slice = Slice { slot: Slot::new(slot), slice_index: slice_index(idx), is_last: last, parent: Some((Slot::new(slot - 1), hash_of(3))), data: rng.bytes(dl) };
            let shreds = RegularShredder::default().shred(&slice, sk).expect("small").to_vec();
            let root = shreds[0].slice_root().as_hash().as_ref().to_vec();
            (shreds, root)
        };
        let idx_a = rng.range(0, 5); let last_a = rng.chance(1, 3);
        let (sa, root_a) = mk(&mut rng, idx_a, last_a, &leader);
        let (sb, root_b) = mk(&mut rng, idx_a, last_a, &leader);             // conflicting slice: same header, other content
        let (sc, _root_c) = mk(&mut rng, idx_a, last_a, &other);               // same header signed by another key
        let k = rng.below(64) as usize;
        let orig = parse(&wincode::serialize(sa[k].as_shred()).unwrap()).expect("own encoding parses");
        let orig_commit = commitment_bytes(slot, idx_a, last_a, &root_a);
        let other_b = parse(&wincode::serialize(sb[k].as_shred()).unwrap()).unwrap();
        let commit_b = commitment_bytes(slot, idx_a, last_a, &root_b);
        let other_c = parse(&wincode::serialize(sc[k].as_shred()).unwrap()).unwrap();
        // (name, mutated shred, signature made by the leader?, message the signature was made over, expectation without cache)
        let mut muts: Vec<(&'static str, Parsed, bool, Vec<u8>, u8)> = Vec::new();
        let mut short_cache: Option<SliceCommitment> = None;
        let mut short_root: Option<alpenglow::crypto::merkle::SliceRoot> = None;
        let base = |p: &Parsed| Parsed { tag: p.tag, slot: p.slot, slice: p.slice, last: p.last, index: p.index, data: p.data.clone(), sig: p.sig.clone(), path: p.path.clone() };
        muts.push(("valid", base(&orig), true, orig_commit.clone(), 0));
        { let mut m = base(&orig); m.slot += 1 + rng.below(3); muts.push(("replayed-under-other-slot", m, true, orig_commit.clone(), 1)); }
        { let mut m = base(&orig); m.slice = (m.slice + 1 + rng.below(3)) % 1024; muts.push(("replayed-under-other-slice", m, true, orig_commit.clone(), 1)); }
        { let mut m = base(&orig); m.last ^= 1; muts.push(("last-flag-flipped", m, true, orig_commit.clone(), 1)); }
        { let mut m = base(&orig); m.index = (m.index + 1 + rng.below(62)) % 64;
          // padding shards can coincide: if the leader's shred at the new index has the same payload and path,
          // the relabelled shred IS that shred and must be accepted
          let there = parse(&wincode::serialize(sa[m.index as usize].as_shred()).unwrap()).unwrap();
          let same = there.data == m.data && there.path == m.path;
          muts.push(("other-shred-index", m, true, orig_commit.clone(), if same { 0 } else { 1 })); }
        { let mut m = base(&orig); if !m.data.is_empty() { let i = rng.below(m.data.len() as u64) as usize; m.data[i] ^= 1 << rng.below(8); muts.push(("payload-byte-flipped", m, true, orig_commit.clone(), 1)); } }
        { let mut m = base(&orig); m.data.pop(); muts.push(("payload-truncated", m, true, orig_commit.clone(), 1)); }
        { let mut m = base(&orig); m.data.push(0); muts.push(("payload-extended", m, true, orig_commit.clone(), 1)); }
        { let mut m = base(&orig); if !m.path.is_empty() { let e = rng.below(m.path.len() as u64) as usize; let b = rng.below(32) as usize; m.path[e][b] ^= 1 << rng.below(8); muts.push(("proof-element-corrupted", m, true, orig_commit.clone(), 1)); } }
        { let mut m = base(&orig); m.path.pop(); muts.push(("proof-shortened", m, true, orig_commit.clone(), 1)); }
        { let mut m = base(&orig); m.path.push(rng.bytes(32)); muts.push(("proof-lengthened", m, true, orig_commit.clone(), 1)); }
        { let mut m = base(&orig); m.tag ^= 1; muts.push(("data-coding-tag-flipped", m, true, orig_commit.clone(), 0)); }
        { let mut m = base(&orig); m.sig = other_b.sig.clone(); muts.push(("signature-of-conflicting-slice", m, true, commit_b.clone(), 1)); }
        { let mut m = base(&orig); m.sig = other_c.sig.clone(); muts.push(("signature-by-other-key", m, false, vec![], 1)); }
        { let mut m = base(&orig); let i = rng.below(64) as usize; m.sig[i] ^= 1 << rng.below(8); muts.push(("signature-byte-flipped", m, false, vec![], 1)); }
        muts.push(("conflicting-slice-valid", base(&other_b), true, commit_b.clone(), 0));
        // the SAME payload (same slice root) validly signed a second time by the leader under another header (last flag
        // flipped / another slice index): a valid shred on its own, equivocation against the original's cached commitment
        for (nm, fl, ix) in [("same-root-resigned-with-other-last-flag", !last_a, idx_a), ("same-root-resigned-under-other-slice-index", last_a, (idx_a + 1 + rng.below(3)) % 1024)] {
            let commit2 = commitment_bytes(slot, ix, fl, &root_a);
            let sig = wincode::serialize(&leader.sign_bytes(&commit2)).unwrap();
            if sig.len() == 64 { let mut m = base(&orig); m.last = fl as u8; m.slice = ix; m.sig = sig; muts.push((nm, m, true, commit2, 0)); }
        }
        // a slice the (Byzantine) leader signed over a tree of only 32 leaves: proofs have 5 elements; leaf `pos` offered at
        // its own position (valid) and at the alias position pos + 32 beyond the width of that tree (must be rejected,
        // also when the short tree's commitment is already cached)
        {
            use alpenglow::crypto::merkle::PlainMerkleTree;
            let leaves: Vec<Vec<u8>> = (0..32).map(|i| parse(&wincode::serialize(sa[i].as_shred()).unwrap()).unwrap().data).collect();
            let tree = PlainMerkleTree::new(&leaves);
            let root32 = tree.get_root().as_ref().to_vec();
            let pos = rng.below(32) as usize;
            let path: Vec<Vec<u8>> = tree.create_proof(pos).iter().map(|h| h.as_ref().to_vec()).collect();
            let commit32 = commitment_bytes(slot, idx_a, last_a, &root32);
            let sig = wincode::serialize(&leader.sign_bytes(&commit32)).unwrap();
            if sig.len() == 64 && path.len() == 5 {
                let inw = Parsed { tag: 0, slot, slice: idx_a, last: last_a as u8, index: pos as u64, data: leaves[pos].clone(), sig: sig.clone(), path: path.clone() };
                if let Ok(sh) = wincode::deserialize::<Shred>(&unparse(&inw)) {
                    if let Ok(v) = ValidatedShred::try_new(sh, None, &pk) { short_cache = Some(v.commitment()); short_root = Some(v.slice_root().clone()); }
                }
                muts.push(("short-tree-in-width", inw, true, commit32.clone(), 0));
                let alias = Parsed { tag: 1, slot, slice: idx_a, last: last_a as u8, index: pos as u64 + 32, data: leaves[pos].clone(), sig, path };
                muts.push(("short-tree-alias-index-beyond-width", alias, true, commit32, 1));
            }
        }
        for (name, m, by_leader, sig_msg, expect) in muts {
            let bytes = unparse(&m);
            let Ok(shred) = wincode::deserialize::<Shred>(&bytes) else { continue };
            // Shred::verify_path_only (path check against a KNOWN root) must agree with the full proof check, in
            // particular for positions beyond the width of a smaller tree
            {
                let known: Option<alpenglow::crypto::merkle::SliceRoot> = if name.starts_with("short-tree") { short_root.clone() } else { Some(sa[0].slice_root().clone()) };
                if let Some(root) = known {
                    let expect_ok = matches!(name, "valid" | "same-root-resigned-with-other-last-flag" | "same-root-resigned-under-other-slice-index" | "short-tree-in-width" | "last-flag-flipped" | "replayed-under-other-slot" | "replayed-under-other-slice" | "data-coding-tag-flipped" | "signature-of-conflicting-slice" | "signature-by-other-key" | "signature-byte-flipped");
                    let expect_bad = matches!(name, "short-tree-alias-index-beyond-width" | "payload-byte-flipped" | "payload-truncated" | "payload-extended" | "proof-element-corrupted" | "proof-shortened" | "proof-lengthened");
                    let got = catch_unwind(AssertUnwindSafe(|| shred.verify_path_only(&root)));
                    path_only_checked += 1;
                    match got {
                        Err(_) => stats.harness_findings.push((cid, format!("shred-auth:verify_path_only:{}:panic", name))),
                        Ok(g) => { if (expect_ok && !g) || (expect_bad && g) { stats.harness_findings.push((cid, format!("shred-auth:verify_path_only:{}:{}", name, if g { "accepted" } else { "rejected" }))); } }
                    }
                }
            }
            // cached commitment: none / the original slice's / the conflicting slice's
            for cache_mode in 0..4u8 {
                if (cache_mode == 1 || cache_mode == 2) && rng.chance(1, 2) { continue; }
                if cache_mode == 3 && !(name.starts_with("short-tree") && short_cache.is_some()) { continue; }
                let cached: Option<SliceCommitment> = match cache_mode { 0 => None, 1 => Some(sa[0].commitment()), 2 => Some(sb[0].commitment()), _ => short_cache.clone() };
                let cached_bytes: Option<Vec<u8>> = cached.as_ref().map(|c| c.as_ref().to_vec());
                let sh = shred.clone(); let pk2 = pk;
                let r = catch_unwind(AssertUnwindSafe(|| ValidatedShred::try_new(sh, cached.as_ref(), &pk2)));
                let v = match r { Err(_) => "SPanic", Ok(Ok(_)) => "SOk", Ok(Err(ShredValidationError::InvalidSignature)) => "SInvalidSignature", Ok(Err(ShredValidationError::Equivocation)) => "SEquivocation" };
                *verdc.entry(format!("cache{}:{}", cache_mode, v)).or_default() += 1;
                *mutc.entry(name).or_default() += 1;
                let w = format!("(mkW {} {} {} {} {} {} {} {} {})", cf::n(m.slot), cf::n(m.slice), cf::b(m.last != 0), cf::n(m.index),
                    it.hex(&m.data), cf::list(&m.path.iter().map(|h| it.hex(h)).collect::<Vec<_>>()), cf::b(m.tag == 0), cf::b(by_leader), it.hex(&sig_msg));
                let c = match &cached_bytes { None => "None".to_string(), Some(b) => format!("(Some {})", it.hex(b)) };
                // a validly signed shred whose commitment differs from the cached, validly signed one for the same slot:
                // two signed commitments of the leader - must be reported as equivocation
                let equivocation_expected = (cache_mode == 1 && matches!(name, "conflicting-slice-valid" | "same-root-resigned-with-other-last-flag" | "same-root-resigned-under-other-slice-index"))
                    || (cache_mode == 2 && matches!(name, "valid" | "same-root-resigned-with-other-last-flag" | "same-root-resigned-under-other-slice-index"));
                // expectation: 0 accept, 1 reject (without a cache hit; a payload at an alias position beyond the width of its
                // tree with ANY cache), 3 equivocation (against a cached commitment)
                let txt = format!("(C12 {} {} {} {} {})", cf::n(cid), w, c, cf::n(if cache_mode == 0 { expect as u64 } else if equivocation_expected { 3 } else if name == "short-tree-alias-index-beyond-width" { 1 } else { 2 }), v);
                sigs.push((cid, 0, format!("shred-auth:{}:cache{}:{}", name, cache_mode, v)));
                stats.evaluations += 1;
                if name != "valid" && seen.insert(txt.clone()) { stats.distinct_nontrivial += 1; }
                if stats.samples.len() < 2 && name == "proof-element-corrupted" { stats.samples.push(format!("{} cache{} -> {}: {}", name, cache_mode, v, txt.chars().take(700).collect::<String>())); }
                descr.push(format!("case {}: {} (cache mode {}), slot {}, slice {}, shred {}", cid, name, cache_mode, slot, idx_a, k));
                cases.push(txt);
                cid += 1;
            }
        }
    }
    stats.rule = "real shreds of small slices (RegularShredder, fresh leader key) and the mutation catalogue applied to the wire bytes: other slot / slice index / last flag / shred index, payload byte flipped / truncated / extended, proof element corrupted, proof shortened / lengthened, data-coding tag flipped, signature of a conflicting validly signed slice, signature by another key, signature byte flipped, the conflicting slice itself, and the same slice root validly signed again under another last flag / slice index; each with no cached commitment, the original slice's and the conflicting slice's cached commitment; plus a slice signed over a tree of only 32 leaves whose leaf is offered at its own and at the alias position beyond the tree's width, with no cache and with that slice's own cached commitment; non-trivial = a mutated shred; distinct by content".into();
    let mut v: Vec<_> = mutc.into_iter().collect(); v.sort();
    stats.distribution.push(("verify_path_only_compared".into(), path_only_checked.to_string()));
    stats.distribution.push(("mutations".into(), v.iter().map(|(k, c)| format!("{}={}", k, c)).collect::<Vec<_>>().join(", ")));
    let mut v: Vec<_> = verdc.into_iter().collect(); v.sort();
    stats.distribution.push(("verdicts".into(), v.iter().map(|(k, c)| format!("{}={}", k, c)).collect::<Vec<_>>().join(", ")));
    CaseSet { header: "From AG Require Import Lib.Hex Model.ShredAuth Oracle.C12.\n".to_string(), runner: "c12_run".to_string(), defs: it.defs, cases, descr, sigs, stats }
}
