#!/usr/bin/env python3
"""Confirm a seeded change produced by a sub-agent: demo passes without / fails with the patch,
the pinned suite still passes with the patch.  usage: confirm_mutant.py <PID> <k>  (uses /tmp/mut_<PID>)"""
import sys, os, json, subprocess, re
pid, k = sys.argv[1], sys.argv[2]
wt = f"/tmp/mut_{pid}"
out = f"{wt}/OUT/{pid}_{k}"
env = dict(os.environ, CARGO_TARGET_DIR=f"{wt}/target", CARGO_NET_OFFLINE="true")
def sh(cmd, timeout=3000):
    p = subprocess.run(cmd, shell=True, cwd=wt, env=env, stdout=subprocess.PIPE, stderr=subprocess.STDOUT, text=True, timeout=timeout)
    return p.returncode, p.stdout
def clean():
    sh("git checkout -- . && git clean -fdq -e target -e OUT")
meta = json.load(open(f"{out}/meta.json"))
demo = meta["demo_cmd"]
demo = re.sub(r"CARGO_TARGET_DIR=\S+\s*", "", demo)
res = {"property": pid, "variant": k, "demo_cmd": demo}
clean()
rc, o = sh(f"git apply {out}/demo.diff"); assert rc == 0, o
rc, o = sh(demo); res["demo_without_patch_rc"] = rc; res["demo_without_tail"] = o[-400:]
rc, o = sh(f"git apply {out}/patch.diff"); assert rc == 0, o
rc, o = sh(demo); res["demo_with_patch_rc"] = rc; res["demo_with_tail"] = o[-600:]
sh(f"git apply -R {out}/demo.diff")
rc, o = sh("cargo nextest run --workspace --no-fail-fast --offline -j 8 2>&1 | tail -15")
m = re.search(r"(\d+) tests run: (\d+) passed, (\d+) failed", o)
res["suite_with_patch"] = m.group(0) if m else o[-300:]
res["suite_ok"] = bool(m and m.group(2) == "254" and m.group(3) == "9")
clean()
res["confirmed"] = res["demo_without_patch_rc"] == 0 and res["demo_with_patch_rc"] != 0 and res["suite_ok"]
json.dump(res, open(f"{out}/confirm.json", "w"), indent=1)
print(json.dumps({k2: v for k2, v in res.items() if "tail" not in k2}))
