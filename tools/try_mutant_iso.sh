#!/bin/sh
# usage: try_mutant_iso.sh <patch.diff> <PID> [tier]
# Runs the check for <PID> against a scratch worktree of /repo (HEAD + patch) and a scratch copy of the
# framework whose harness points at that worktree - /repo itself is not touched (use while other jobs
# build from /repo).  Scratch dirs: /tmp/mrepo, /tmp/mverif (kept between calls for the cargo cache;
# remove with `git -C /repo worktree remove --force /tmp/mrepo; rm -rf /tmp/mverif`).
patch="$1"; pid="$2"; tier="${3:-quick}"
# MUT_SLOT=<suffix> selects another scratch pair (/tmp/mrepo<suffix>, /tmp/mverif<suffix>) for parallel trials
M=/tmp/mrepo${MUT_SLOT:-}; V=/tmp/mverif${MUT_SLOT:-}
head=$(git -C /repo rev-parse HEAD)
if [ ! -d $M ]; then git -C /repo worktree add --detach $M "$head" >/dev/null 2>&1 || exit 2; fi
git -C $M checkout -q -- . && git -C $M checkout -q --detach "$head" || exit 2
git -C $M apply "$patch" || { echo "patch does not apply"; exit 2; }
mkdir -p $V
rsync -a --delete --exclude .cache --exclude work --exclude replays --exclude .git --exclude evidence ${VERIF_SRC:-/verif}/ $V/
mkdir -p $V/evidence
sed -i "s#path = \"/repo\"#path = \"$M\"#" $V/harness/Cargo.toml
sed -i "s#lock_src = \"/repo/Cargo.lock\"#lock_src = \"$M/Cargo.lock\"#" $V/bin/check
cd $V && bin/check "$pid" --tier "$tier"; rc=$?
git -C $M checkout -q -- .
echo "check exit=$rc"
