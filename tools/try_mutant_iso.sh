#!/bin/sh
# usage: try_mutant_iso.sh <patch.diff> <PID> [tier]
# Runs the check for <PID> against a scratch worktree of /repo (HEAD + patch) and a scratch copy of the
# framework whose harness points at that worktree - /repo itself is not touched (use while other jobs
# build from /repo).  Scratch dirs: /tmp/mrepo, /tmp/mverif (kept between calls for the cargo cache;
# remove with `git -C /repo worktree remove --force /tmp/mrepo; rm -rf /tmp/mverif`).
patch="$1"; pid="$2"; tier="${3:-quick}"
head=$(git -C /repo rev-parse HEAD)
if [ ! -d /tmp/mrepo ]; then git -C /repo worktree add --detach /tmp/mrepo "$head" >/dev/null 2>&1 || exit 2; fi
git -C /tmp/mrepo checkout -q -- . && git -C /tmp/mrepo checkout -q --detach "$head" || exit 2
git -C /tmp/mrepo apply "$patch" || { echo "patch does not apply"; exit 2; }
mkdir -p /tmp/mverif
rsync -a --delete --exclude .cache --exclude work --exclude replays --exclude .git --exclude evidence ${VERIF_SRC:-/verif}/ /tmp/mverif/
mkdir -p /tmp/mverif/evidence
sed -i 's#path = "/repo"#path = "/tmp/mrepo"#' /tmp/mverif/harness/Cargo.toml
sed -i 's#lock_src = "/repo/Cargo.lock"#lock_src = "/tmp/mrepo/Cargo.lock"#' /tmp/mverif/bin/check
cd /tmp/mverif && bin/check "$pid" --tier "$tier"; rc=$?
git -C /tmp/mrepo checkout -q -- .
echo "check exit=$rc"
