#!/bin/sh
# usage: try_mutant.sh <patch.diff> <PID> [tier]  -- apply to /repo, run the check, undo
patch="$1"; pid="$2"; tier="${3:-quick}"
cd /repo || exit 2
git apply "$patch" || { echo "patch does not apply"; exit 2; }
cd /verif && bin/check "$pid" --tier "$tier"; rc=$?
git -C /repo checkout -- .
echo "check exit=$rc"
