#!/usr/bin/env python3
"""Print the prompt for an independent mutation-writing sub-agent (only the property text + its scratch worktree)."""
import json, sys
pid = sys.argv[1]
wt = f"/tmp/mut_{pid}"
for l in open('/verif/properties.jsonl'):
    p = json.loads(l)
    if p['id'] == pid:
        break
else:
    sys.exit("no such property")
print(f"""You are helping to evaluate a verification effort for the Rust crate qkniep/alpenglow (a research implementation of the Alpenglow BFT consensus protocol). Your job: write realistic *bugs* ("seeded changes") that break ONE stated semantic property of the crate while the crate still compiles and its existing test suite still passes.

Your scratch git worktree of the repository is {wt} (already created, detached HEAD at the pinned commit). Work ONLY inside {wt}. Never read, write or cd into /repo or /verif (they are off limits and you must not look at them). No network: always pass --offline to cargo (CARGO_NET_OFFLINE=true). Use `export CARGO_TARGET_DIR={wt}/target`. The sandbox has 16 cores shared with other jobs; please use `-j 6` for cargo builds.

THE PROPERTY ({p['id']}: {p['title']}):
{p['statement']}

It quantifies over: {p['quantifier']['text']}

Code the property is anchored in: {', '.join(p['anchors']['files'])}
Mechanisms meant to make it hold: {json.dumps(p['anchors'].get('mechanism', []))}
Where it is observed: {json.dumps(p['anchors'].get('observe_at', []))}

WHAT TO PRODUCE: TWO independent seeded changes (different root causes, in different functions if possible). Each is a small source change to src/ (a few lines; the kind of slip a maintainer could make in a refactor or optimisation: an off-by-one in a threshold or bound, a check moved/dropped/inverted on one path only, a wrong field compared, a stale cache, state updated in the wrong order, etc.) such that:
 1. the crate still compiles (`cargo build --offline`) and the existing test suite still passes: run `cargo nextest run --workspace --no-fail-fast --offline -j 6` (or `cargo test --workspace --no-fail-fast --offline`). On the UNCHANGED tree exactly 254 tests pass and these 9 always fail for environmental reasons (ignore them): network::simulated::ping_data::tests::basic, network::simulated::stake_distribution::tests::basic, and the 7 smoke_tests::*. With your change the same 254 must still pass. Do not edit, delete or weaken any existing test.
 2. the property above is genuinely violated by the changed code (not merely some internal detail changed) — at the level of the crate's observable behaviour/API.
 3. the violation needs something SPECIFIC to manifest — a particular arrival order/interleaving, a multi-step sequence of operations, an unusual (boundary) input or stake distribution, a fault at a particular point, or two cooperating code sites that each look fine alone. NOT something ordinary use or any smoke run would expose at once.
 4. a demonstration: a NEW test (prefer a new file under tests/, e.g. tests/seeded_{pid.lower()}_a.rs, using the crate's public API with `--features test-utils` if needed; if private items are unavoidable, a new #[cfg(test)] test function appended inside the relevant src file's tests module is acceptable but then keep that addition out of patch.diff and in the separate demo patch) which FAILS with the change applied and PASSES on the unchanged tree. Verify both yourself by actually running it both ways.

Do the two changes one after the other, each starting from a clean tree (`git -C {wt} checkout -- . && git -C {wt} clean -fd -e target -e OUT`).

DELIVERABLES, for change k in {{a,b}} put in {wt}/OUT/{pid}_k/ :
 - patch.diff : `git diff` of ONLY the source change to src/ (must apply with `git apply` to the pinned commit).
 - demo.diff  : a patch adding ONLY the demonstration test (applies to the pinned commit on its own, independently of patch.diff).
 - meta.json  : {{"property": "{pid}", "summary": "<one-line description of the bug>", "needs": "<what specific condition is needed for it to manifest>", "demo_cmd": "<exact cargo command that runs the demonstration>", "demo_fails_with_patch": true, "demo_passes_without_patch": true, "suite_passes_with_patch": true, "files_changed": [...]}}
Only claim true for what you actually ran. If after honest effort you can only produce one valid change, deliver one and say so.

When finished, reply with a short report: for each change the one-line summary, what it needs to manifest, and the commands you ran with their results. Do not include anything else.""")
